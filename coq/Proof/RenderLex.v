(* Proof/RenderLex.v — the text Shroud renders for a declaration of the fragment lexes to exactly the tokens the
   declaration stands for; with Proof/RoundTrip.v this gives the round trip on text:
   parse_statement (render_decl d) = Ok (SDecl d). *)
From Coq Require Import List NArith ZArith Bool Arith String Lia.
From Shroud Require Import Base.Ustr Model.Splicer Model.Lexer Model.Expr Model.Decl Model.Render
  Proof.Splicer Proof.Render Proof.LexComp Proof.ExprRT Proof.ExprLex.
From Shroud Require Import Proof.RoundTrip.
Import ListNotations.

(* ---- the additional conditions on the words: what the lexer must see ---- *)
Definition nameb (n : ustr) : bool := wordb n && match classify_id n with ID => true | _ => false end.

Fixpoint text_dtorb (d : declarator) : bool :=
  let '(Dtor _ name func) := d in
  match name with Some n => nameb n | None => true end && match func with Some f => text_dtorb f | None => true end.

(* a word of the type as text: a built-in word, or a possibly qualified name whose components are identifiers *)
Definition type_wordb (w : ustr) : bool :=
  spec_wordb w || (forallb nameb (split_colons w) && ueqb (join_colons (split_colons w)) w).

Fixpoint text_fragment (d : decl) : bool :=
  let '(Decl spec _ _ _ _ dt params arr _ _ _ _) := d in
  forallb type_wordb spec && match dt with Some x => text_dtorb x | None => true end &&
  match params with Some ps => forallb text_fragment ps | None => true end && forallb etext arr.

Lemma spec_word_ok w : spec_wordb w = true -> wordb w = true /\ word_tok w = {| tk := TYPE_SPECIFIER; tv := w |}.
Proof.
  unfold spec_wordb, ustr_in. cbn [map existsb type_specifier]. intros H.
  repeat (apply orb_true_iff in H; destruct H as [H | H]; [apply Proof.Splicer.ueqb_eq in H; subst; split; reflexivity|]).
  discriminate.
Qed.

Lemma name_ok n : nameb n = true -> wordb n = true /\ word_tok n = {| tk := ID; tv := n |}.
Proof.
  unfold nameb. intros H. apply andb_true_iff in H. destruct H as [Hw Hk]. split; [exact Hw|].
  unfold word_tok. destruct (classify_id n); try discriminate. reflexivity.
Qed.

(* a word of the type: a built-in word or a type name, lexed as the token it stands for *)
Lemma type_word_ok w : spec_wordb w || nameb w = true -> wordb w = true /\ word_tok w = spec_tok w.
Proof.
  intros H. unfold spec_tok. destruct (spec_wordb w) eqn:Ew.
  - apply spec_word_ok; exact Ew.
  - cbn [orb] in H. apply name_ok; exact H.
Qed.

(* ---- pieces ---- *)
Lemma not_alnum_32 : is_alnum_ 32 = false. Proof. reflexivity. Qed.

Lemma any_word_space w : wordb w = true -> Any (w ++ [32%N]) [word_tok w].
Proof.
  intros Hw. rewrite <- (app_nil_r [word_tok w]).
  apply weak_any_app; [apply weak_word; exact Hw | apply any_space | discriminate | exact not_alnum_32].
Qed.

Lemma weak_space_word w : wordb w = true -> Weak (32%N :: w) [word_tok w].
Proof. intros Hw. change (32%N :: w) with ([32%N] ++ w). change [word_tok w] with ([] ++ [word_tok w]). apply any_weak_app; [apply any_space | apply weak_word; exact Hw]. Qed.

Lemma weak_native_words : forall spec, spec <> [] -> forallb spec_wordb spec = true -> Weak (join_with sp spec) (map spec_tok spec).
Proof.
  induction spec as [|w spec IH]; [contradiction|]. intros _ H. cbn [forallb] in H. apply andb_true_iff in H. destruct H as [Hw Hs].
  destruct (type_word_ok w ltac:(rewrite Hw; reflexivity)) as (Hwb & Et). destruct spec as [|w2 spec'].
  - cbn [join_with map]. rewrite <- Et. apply weak_word; exact Hwb.
  - change (join_with sp (w :: w2 :: spec')) with (w ++ sp ++ join_with sp (w2 :: spec')).
    change (map spec_tok (w :: w2 :: spec')) with ([spec_tok w] ++ map spec_tok (w2 :: spec')).
    rewrite app_assoc. apply any_weak_app; [rewrite <- Et; apply any_word_space; exact Hwb | apply IH; [discriminate | exact Hs]].
Qed.

Lemma any_colons : Any [58; 58]%N [ns_tok].
Proof.
  intros r f Hf. destruct f as [|f']; [cbn in Hf; lia|]. exists f'. split; [cbn in Hf; lia|]. reflexivity.
Qed.

Lemma path_toks_cons x y r : path_toks (x :: y :: r) = id_tok x :: ns_tok :: path_toks (y :: r).
Proof. reflexivity. Qed.

Lemma weak_path : forall names, names <> [] -> forallb nameb names = true -> Weak (join_colons names) (path_toks names).
Proof.
  induction names as [|x names IH]; [contradiction|]. intros _ H. cbn [forallb] in H. apply andb_true_iff in H. destruct H as [Hx Hn].
  destruct (name_ok x Hx) as (Hwb & Et). destruct names as [|y r].
  - cbn [join_colons path_toks flat_map]. unfold id_tok. rewrite <- Et. apply weak_word; exact Hwb.
  - rewrite path_toks_cons.
    change (join_colons (x :: y :: r)) with (x ++ [58; 58]%N ++ join_colons (y :: r)).
    change (id_tok x :: ns_tok :: path_toks (y :: r)) with (([id_tok x] ++ [ns_tok]) ++ path_toks (y :: r)).
    rewrite app_assoc. apply any_weak_app; [| apply IH; [discriminate | exact Hn]].
    apply weak_any_app; [unfold id_tok; rewrite <- Et; apply weak_word; exact Hwb | apply any_colons | discriminate | reflexivity].
Qed.

(* the type part of a fragment declaration: built-in words, or one (qualified) name *)
Lemma weak_type_words spec : spec <> [] -> forallb type_wordb spec = true ->
  (forallb spec_wordb spec = true \/ exists w, spec = [w] /\ spec_wordb w = false) ->
  Weak (join_with sp spec) (type_toks spec).
Proof.
  intros Hne Ht [Hn | (w & -> & Ew)].
  - rewrite (type_toks_native spec Hn). apply weak_native_words; assumption.
  - cbn [forallb] in Ht. rewrite andb_true_r in Ht. unfold type_wordb in Ht. rewrite Ew in Ht. cbn [orb] in Ht.
    apply andb_true_iff in Ht. destruct Ht as [Hnames Hj]. apply Proof.Splicer.ueqb_eq in Hj.
    cbn [join_with]. unfold type_toks. rewrite Ew. rewrite <- Hj at 1. apply weak_path; [| exact Hnames].
    unfold split_colons. destruct (split_aux_nonempty w []) as (x & l & E). rewrite E. discriminate.
Qed.

Definition hdr_text (cst vol : bool) (spec : list ustr) : ustr :=
  (if cst then cp "const " else []) ++ (if vol then cp "volatile " else []) ++ join_with sp spec.

Lemma weak_hdr cst vol spec : Weak (join_with sp spec) (type_toks spec) -> Weak (hdr_text cst vol spec) (head_toks cst vol spec).
Proof.
  intros Hw. unfold hdr_text, head_toks.
  assert (Hc : Any (cp "const ") [tok_of TYPE_QUALIFIER "const"]) by (apply (any_word_space (cp "const")); reflexivity).
  assert (Hv : Any (cp "volatile ") [tok_of TYPE_QUALIFIER "volatile"]) by (apply (any_word_space (cp "volatile")); reflexivity).
  destruct cst, vol; cbn [app].
  - apply (any_weak_app (cp "const ") [_] _ _ Hc). apply (any_weak_app (cp "volatile ") [_] _ _ Hv). exact Hw.
  - apply (any_weak_app (cp "const ") [_] _ _ Hc). exact Hw.
  - apply (any_weak_app (cp "volatile ") [_] _ _ Hv). exact Hw.
  - exact Hw.
Qed.

(* pointers *)
Lemma weak_ptr p : wf_ptrb p = true -> Weak (render_ptr false p) (ptr_toks p) /\ exists s, render_ptr false p = 32%N :: s.
Proof.
  intros H. unfold wf_ptrb in H. destruct p as [s c v]. cbn [p_ptr] in H.
  assert (Hstar : Any (cp " *") [punct_tok 42 STAR]).
  { change (cp " *") with ([32%N] ++ [42%N]). change [punct_tok 42 STAR] with ([] ++ [punct_tok 42 STAR]).
    apply any_app; [apply any_space | apply any_punct; cbn; auto]. }
  assert (Hamp : Any (cp " &") [punct_tok 38 REF]).
  { change (cp " &") with ([32%N] ++ [38%N]). change [punct_tok 38 REF] with ([] ++ [punct_tok 38 REF]).
    apply any_app; [apply any_space | apply any_punct; cbn; auto 6]. }
  assert (Hc : Weak (cp " const") [tok_of TYPE_QUALIFIER "const"]) by (apply (weak_space_word (cp "const")); reflexivity).
  assert (Hv : Weak (cp " volatile") [tok_of TYPE_QUALIFIER "volatile"]) by (apply (weak_space_word (cp "volatile")); reflexivity).
  assert (Hcv : Weak (cp " const" ++ cp " volatile") ([tok_of TYPE_QUALIFIER "const"] ++ [tok_of TYPE_QUALIFIER "volatile"])).
  { apply weak_weak_app; [exact Hc | exact Hv | reflexivity]. }
  apply orb_true_iff in H. destruct H as [H | H]; apply Proof.Splicer.ueqb_eq in H; subst s;
    (split; [| destruct c, v; eexists; reflexivity]); unfold render_ptr, ptr_toks; cbn [p_ptr p_const p_volatile];
    destruct c, v; cbn [app].
  - apply (weak_any_app' _ _ _ _ Hstar Hcv).
  - apply (weak_any_app' _ _ _ _ Hstar Hc).
  - apply (weak_any_app' _ _ _ _ Hstar Hv).
  - rewrite app_nil_r. apply any_weak. exact Hstar.
  - apply (weak_any_app' _ _ _ _ Hamp Hcv).
  - apply (weak_any_app' _ _ _ _ Hamp Hc).
  - apply (weak_any_app' _ _ _ _ Hamp Hv).
  - rewrite app_nil_r. apply any_weak. exact Hamp.
Qed.

Lemma weak_ptrs : forall ps, forallb wf_ptrb ps = true ->
  Weak (List.concat (map (render_ptr false) ps)) (List.concat (map ptr_toks ps)) /\
  (ps <> [] -> exists s, List.concat (map (render_ptr false) ps) = 32%N :: s).
Proof.
  induction ps as [|p ps IH]; intros H.
  - split; [apply any_weak, any_nil | intros Hc; contradiction].
  - cbn [forallb] in H. apply andb_true_iff in H. destruct H as [Hp Hps].
    destruct (weak_ptr p Hp) as (Wp & sp_ & Ep). destruct (IH Hps) as (Wps & Sps). cbn [map List.concat]. split.
    + apply weak_weak_app; [exact Wp | exact Wps|].
      destruct ps as [|q ps']; [reflexivity|]. destruct (Sps ltac:(discriminate)) as (s & Es). rewrite Es. exact not_alnum_32.
    + intros _. rewrite Ep. eexists; reflexivity.
Qed.

(* a declarator: its text lexes to its tokens, and the text starts with a blank *)
Lemma weak_dtor c : forall d, wf_dtorb c d = true -> text_dtorb d = true ->
  Weak (render_dtor false d) (dtor_toks d) /\ exists s, render_dtor false d = 32%N :: s.
Proof.
  fix IH 1. intros [ps name func] Hw Ht. cbn [wf_dtorb] in Hw. apply andb_true_iff in Hw. destruct Hw as [Hps Hw].
  cbn [text_dtorb] in Ht. apply andb_true_iff in Ht. destruct Ht as [Hn Hf].
  destruct (weak_ptrs ps Hps) as (Wps & Sps). cbn [render_dtor dtor_toks].
  assert (Hst : forall tail, tail <> [] -> (exists s, tail = 32%N :: s) ->
                exists s, List.concat (map (render_ptr false) ps) ++ tail = 32%N :: s).
  { intros tail _ (s & Es). destruct ps as [|p ps']; [cbn [map List.concat app]; eauto|].
    destruct (Sps ltac:(discriminate)) as (s' & Es'). rewrite Es'. cbn [app]. eauto. }
  destruct func as [f|].
  - destruct name as [n|]; [discriminate|]. destruct (IH f Hw Hf) as (Wf & Sf).
    assert (Hin : Any (cp " (" ++ render_dtor false f ++ cp ")") (tok_of LPAREN "(" :: dtor_toks f ++ [tok_of RPAREN ")"])).
    { change (cp " (") with ([32%N] ++ [40%N]). rewrite <- app_assoc.
      change (tok_of LPAREN "(" :: dtor_toks f ++ [tok_of RPAREN ")"]) with ([] ++ [punct_tok 40 LPAREN] ++ dtor_toks f ++ [punct_tok 41 RPAREN]).
      apply any_app; [apply any_space|]. apply any_app; [apply any_punct; cbn; auto|].
      apply weak_any_app; [exact Wf | apply any_punct; cbn; auto | discriminate | reflexivity]. }
    split.
    + apply any_weak. apply weak_any_app; [exact Wps | exact Hin | discriminate | reflexivity].
    + apply Hst; [discriminate | eexists; reflexivity].
  - destruct name as [n|].
    + destruct (name_ok n Hn) as (Hwb & Etok). destruct n as [|c0 n']; [discriminate|].
      split.
      * apply weak_weak_app; [exact Wps | | exact not_alnum_32]. rewrite <- Etok. apply (weak_space_word (c0 :: n')); exact Hwb.
      * apply Hst; [discriminate | eexists; reflexivity].
    + rewrite !app_nil_r. split; [exact Wps|]. apply Sps. destruct ps; [discriminate | discriminate].
Qed.

(* ---- declarations ---- *)
Definition dt_text (dt : option declarator) : ustr := match dt with Some x => render_dtor false x | None => [] end.
Definition par_text (params : option (list decl)) (fc : bool) : ustr :=
  match params with
  | None => []
  | Some ps => cp "(" ++ (match ps with [] => cp "void" | _ => join_with (cp ", ") (map render_decl ps) end) ++ cp ")" ++
               (if fc then cp " const" else [])
  end.

Definition arr_text (arr : list expr) : ustr := List.concat (map (fun e => cp "[" ++ print_expr e ++ cp "]") arr).

Lemma render_decl_eq spec cst vol tm dt params arr fc :
  render_decl (Decl spec [] cst vol tm dt params arr [] AVNone [] fc) = hdr_text cst vol spec ++ dt_text dt ++ par_text params fc ++ arr_text arr.
Proof.
  cbn [render_decl]. unfold hdr_text, dt_text, par_text, arr_text.
  change (truthy_str (attr_lookup "_destructor" [])) with (@None ustr). change (render_attrs []) with (@nil N).
  rewrite !app_nil_r. cbn [app]. rewrite <- !app_assoc. reflexivity.
Qed.

Lemma any_brackets : Any [91%N] [lb_tok] /\ Any [93%N] [rb_tok].
Proof.
  split; intros r f Hf; (destruct f as [|f']; [cbn in Hf; lia|]); exists f'; (split; [cbn in Hf; lia | reflexivity]).
Qed.

Lemma arr_any : forall arr, forallb canon arr = true -> forallb etext arr = true -> Any (arr_text arr) (arr_toks arr).
Proof.
  induction arr as [|e arr IH]; intros Hc Ht; [apply any_nil|].
  cbn [forallb] in *. apply andb_true_iff in Hc. destruct Hc as [Hce Hc]. apply andb_true_iff in Ht. destruct Ht as [Hte Ht].
  unfold arr_text, arr_toks. cbn [map List.concat flat_map]. fold (arr_text arr). fold (arr_toks arr).
  apply any_app; [| apply IH; assumption].
  change (cp "[" ++ print_expr e ++ cp "]") with ([91%N] ++ (print_expr e ++ [93%N])).
  change (lb_tok :: etoks e ++ [rb_tok]) with ([lb_tok] ++ (etoks e ++ [rb_tok])).
  apply any_app; [apply any_brackets|].
  apply weak2_any_app; [apply (text_of_expression (S (esize e))); [lia | exact Hce | exact Hte] | apply any_brackets | split; reflexivity].
Qed.

Lemma join_params : forall ps, ps <> [] -> (forall p, In p ps -> Weak (render_decl p) (decl_toks p)) ->
  Any (join_with (cp ", ") (map render_decl ps) ++ cp ")") (join_toks (map decl_toks ps) ++ [tok_of RPAREN ")"]).
Proof.
  induction ps as [|p ps IH]; [contradiction|]. intros _ H. destruct ps as [|q l].
  - cbn [map join_with join_toks]. apply weak_any_app; [apply H; left; reflexivity | apply (any_punct 41 RPAREN); cbn; auto | discriminate | reflexivity].
  - change (join_with (cp ", ") (map render_decl (p :: q :: l))) with (render_decl p ++ cp ", " ++ join_with (cp ", ") (map render_decl (q :: l))).
    change (join_toks (map decl_toks (p :: q :: l))) with (decl_toks p ++ tok_of COMMA "," :: join_toks (map decl_toks (q :: l))).
    rewrite <- !app_assoc. cbn [app].
    apply weak_any_app; [apply H; left; reflexivity | | discriminate | reflexivity].
    change (cp ", " ++ join_with (cp ", ") (map render_decl (q :: l)) ++ cp ")")
      with ([44%N] ++ [32%N] ++ (join_with (cp ", ") (map render_decl (q :: l)) ++ cp ")")).
    change (tok_of COMMA "," :: join_toks (map decl_toks (q :: l)) ++ [tok_of RPAREN ")"])
      with ([punct_tok 44 COMMA] ++ [] ++ (join_toks (map decl_toks (q :: l)) ++ [tok_of RPAREN ")"])).
    apply any_app; [apply any_punct; cbn; auto 8|]. apply any_app; [apply any_space|].
    apply IH; [discriminate | intros p' Hin; apply H; right; exact Hin].
Qed.

Lemma dsize_in p ps : In p ps -> dsize p < psum ps.
Proof.
  induction ps as [|q ps IH]; [contradiction|]. intros [-> | Hin]; rewrite psum_cons; [lia|]. specialize (IH Hin). lia.
Qed.

Lemma text_of_declaration c : forall n d, dsize d < n -> in_fragment c d = true -> text_fragment d = true ->
  Weak (render_decl d) (decl_toks d).
Proof.
  induction n as [|n IH]; intros d Hn Hfr Htx; [lia|].
  destruct d as [spec st cst vol tm dt params arr at_ init ta fc].
  destruct (in_fragment_fields _ _ _ _ _ _ _ _ _ _ _ _ _ Hfr) as (Hs & -> & Harr & -> & -> & -> & Hok & Hdt & Hpar).
  cbn [text_fragment] in Htx. apply andb_true_iff in Htx. destruct Htx as [Htx Hta]. apply andb_true_iff in Htx. destruct Htx as [Htx Htp].
  apply andb_true_iff in Htx. destruct Htx as [Hsw Htd].
  rewrite render_decl_eq, decl_toks_eq. cbn [dsize] in Hn.
  assert (Hshape : forallb spec_wordb spec = true \/ exists w, spec = [w] /\ spec_wordb w = false).
  { unfold spec_okb in Hok. destruct (named_type c spec) as [[id tm']|] eqn:En.
    - right. unfold named_type in En. destruct spec as [|w [|w2 l]]; try discriminate.
      destruct (spec_wordb w) eqn:Ew; [discriminate|]. exists w. split; [reflexivity | exact Ew].
    - left. apply andb_true_iff in Hok. destruct Hok as [Hok _]. apply andb_true_iff in Hok. destruct Hok as [Hok _]. exact Hok. }
  pose proof (weak_hdr cst vol spec (weak_type_words spec Hs Hsw Hshape)) as Whdr.
  (* the parameter part *)
  assert (Wpar : Weak (par_text params fc) (par_toks params fc) /\ okstart (par_text params fc) (par_toks params fc)).
  { destruct params as [ps|]; [| split; [apply any_weak, any_nil | reflexivity]].
    split; [| reflexivity]. unfold par_text, par_toks.
    destruct Hpar as (_ & Hall & _).
    assert (Hbody : Any ((match ps with [] => cp "void" | _ => join_with (cp ", ") (map render_decl ps) end) ++ cp ")")
                        ((match ps with [] => [spec_tok (cp "void")] | _ => join_toks (map decl_toks ps) end) ++ [tok_of RPAREN ")"])).
    { destruct ps as [|p0 ps0].
      - apply weak_any_app; [apply (weak_word (cp "void")); reflexivity | apply (any_punct 41 RPAREN); cbn; auto | discriminate | reflexivity].
      - apply join_params; [discriminate|]. intros p Hin. apply IH.
        + pose proof (dsize_in p (p0 :: ps0) Hin) as Hlt. unfold psum in Hlt. lia.
        + rewrite forallb_forall in Hall. apply Hall; exact Hin.
        + rewrite forallb_forall in Htp. apply Htp; exact Hin. }
    change (tok_of LPAREN "(" :: ?x) with ([punct_tok 40 LPAREN] ++ x).
    assert (Hopen : Any (cp "(" ++ (match ps with [] => cp "void" | _ => join_with (cp ", ") (map render_decl ps) end) ++ cp ")")
                        ([punct_tok 40 LPAREN] ++ (match ps with [] => [spec_tok (cp "void")] | _ => join_toks (map decl_toks ps) end) ++ [tok_of RPAREN ")"])).
    { apply any_app; [apply (any_punct 40 LPAREN); cbn; auto | exact Hbody]. }
    rewrite !app_assoc in Hopen.
    destruct fc.
    - change (tok_of RPAREN ")" :: [tok_of TYPE_QUALIFIER "const"]) with ([tok_of RPAREN ")"] ++ [tok_of TYPE_QUALIFIER "const"]).
      rewrite !app_assoc.
      refine (any_weak_app _ _ _ _ Hopen _). apply (weak_space_word (cp "const")); reflexivity.
    - rewrite app_nil_r. rewrite !app_assoc. apply any_weak. exact Hopen. }
  destruct Wpar as (Wpar & Spar).
  (* declarator followed by the parameter part *)
  assert (Wrest : Weak (dt_text dt ++ par_text params fc) (dt_toks dt ++ par_toks params fc) /\
                  okstart (dt_text dt ++ par_text params fc) (dt_toks dt ++ par_toks params fc)).
  { destruct dt as [x|]; cbn [dt_text dt_toks app].
    - destruct (weak_dtor c x Hdt Htd) as (Wx & sx & Ex). split.
      + apply weak_weak_app; [exact Wx | exact Wpar | exact Spar].
      + rewrite Ex. exact not_alnum_32.
    - split; [exact Wpar | exact Spar]. }
  destruct Wrest as (Wrest & Srest).
  (* ... followed by the array suffixes *)
  assert (Wall : Weak ((dt_text dt ++ par_text params fc) ++ arr_text arr) ((dt_toks dt ++ par_toks params fc) ++ arr_toks arr) /\
                 okstart ((dt_text dt ++ par_text params fc) ++ arr_text arr) ((dt_toks dt ++ par_toks params fc) ++ arr_toks arr)).
  { destruct arr as [|e arr'].
    - unfold arr_text, arr_toks. cbn [map List.concat flat_map]. rewrite !app_nil_r. split; assumption.
    - split.
      + apply weak_weak_app; [exact Wrest | apply any_weak; apply arr_any; assumption | reflexivity].
      + destruct (dt_text dt ++ par_text params fc) as [|c0 s0] eqn:E0; [reflexivity | exact Srest]. }
  destruct Wall as (Wall & Sall). rewrite <- !app_assoc in Wall, Sall.
  apply weak_weak_app; [exact Whdr | exact Wall | exact Sall].
Qed.

(* ---- the theorems on text ---- *)
Theorem rendering_lexes_to_its_tokens : forall c d,
  in_fragment c d = true -> text_fragment d = true -> tokenize (render_decl d) = decl_toks d.
Proof. intros c d Hf Ht. apply weak_tokenize. apply (text_of_declaration c (S (dsize d))); [lia | exact Hf | exact Ht]. Qed.

Lemma depth_le_toks : forall x, depth x <= List.length (dtor_toks x).
Proof.
  fix IH 1. intros [ps name [f|]]; cbn [depth dtor_toks]; [|lia].
  rewrite app_length. cbn [List.length]. rewrite app_length. cbn [List.length]. specialize (IH f). lia.
Qed.

Lemma join_toks_length : forall l, list_sum (map (@List.length tok) l) <= List.length (join_toks l).
Proof.
  induction l as [|x l IH]; [cbn; lia|]. destruct l as [|y l'].
  - cbn [join_toks map list_sum fold_right]. lia.
  - change (join_toks (x :: y :: l')) with (x ++ tok_of COMMA "," :: join_toks (y :: l')).
    rewrite app_length. cbn [List.length]. cbn [map list_sum fold_right] in *. lia.
Qed.

Lemma join_toks_count : forall l, l <> [] -> List.length l + list_sum (map (@List.length tok) l) <= S (List.length (join_toks l)).
Proof.
  induction l as [|x l IH]; [contradiction|]. intros _. destruct l as [|y l'].
  - cbn [join_toks map list_sum fold_right List.length]. lia.
  - change (join_toks (x :: y :: l')) with (x ++ tok_of COMMA "," :: join_toks (y :: l')).
    rewrite app_length. cbn [List.length]. specialize (IH ltac:(discriminate)). cbn [map list_sum fold_right List.length] in *. lia.
Qed.

Lemma psum_bound : forall ps, (forall p, In p ps -> dsize p <= 8 * List.length (decl_toks p)) ->
  psum ps <= List.length ps + 8 * list_sum (map (@List.length tok) (map decl_toks ps)).
Proof.
  induction ps as [|p ps IH]; intros H; [cbn; lia|]. rewrite psum_cons. cbn [map List.length].
  specialize (IH (fun q Hq => H q (or_intror Hq))). specialize (H p (or_introl eq_refl)). unfold list_sum in *. cbn [fold_right]. lia.
Qed.

Lemma dsize_le_toks c : forall n d, dsize d < n -> in_fragment c d = true -> dsize d <= 8 * List.length (decl_toks d).
Proof.
  induction n as [|n IH]; intros d Hn Hfr; [lia|].
  destruct d as [spec st cst vol tm dt params arr at_ init ta fc].
  destruct (in_fragment_fields _ _ _ _ _ _ _ _ _ _ _ _ _ Hfr) as (Hs & -> & Harr & -> & -> & -> & Hok & Hdt & Hpar).
  rewrite decl_toks_eq, !app_length. cbn [dsize] in *.
  assert (Har : List.length arr <= List.length (arr_toks arr)).
  { clear. unfold arr_toks. induction arr as [|e arr IH]; [cbn; lia|]. cbn [flat_map List.length]. rewrite app_length. cbn [List.length]. lia. }
  assert (Hh : spec_len spec <= List.length (head_toks cst vol spec) /\ 1 <= List.length (head_toks cst vol spec)).
  { destruct (head_first cst vol spec Hs) as (t0 & r0 & E0 & _).
    split; [| rewrite E0; cbn [List.length]; lia].
    unfold head_toks. rewrite !app_length. unfold spec_len, type_toks.
    destruct spec as [|w [|w2 l]]; [contradiction | | rewrite map_length; lia].
    destruct (spec_wordb w); [cbn [List.length]; lia|].
    destruct (split_colons w) as [|n0 rest]; [cbn [List.length]; lia|]. cbn [path_toks List.length].
    assert (Hfm : List.length rest <= List.length (flat_map (fun n1 : ustr => [ns_tok; id_tok n1]) rest)).
    { clear. induction rest as [|x rest IH]; [cbn; lia|]. cbn [flat_map app List.length]. lia. }
    lia. }
  destruct Hh as (Hh & H1).
  assert (Hd : match dt with Some x => depth x | None => 0 end <= List.length (dt_toks dt)).
  { destruct dt as [x|]; [apply depth_le_toks | cbn; lia]. }
  destruct params as [ps|]; cbn [par_toks List.length]; [|lia].
  destruct Hpar as (_ & Hall & _). rewrite app_length. cbn [List.length].
  destruct ps as [|p0 ps0]; [cbn [map list_sum fold_right List.length]; lia|].
  assert (Hps : psum (p0 :: ps0) <= List.length (p0 :: ps0) + 8 * list_sum (map (@List.length tok) (map decl_toks (p0 :: ps0)))).
  { apply psum_bound. intros p Hin. apply IH.
    - pose proof (dsize_in p _ Hin) as Hlt. unfold psum in Hlt. lia.
    - rewrite forallb_forall in Hall. apply Hall; exact Hin. }
  pose proof (join_toks_count (map decl_toks (p0 :: ps0)) ltac:(discriminate)) as Hj. rewrite map_length in Hj.
  unfold psum in Hps. lia.
Qed.

(* re-parsing Shroud's own rendering of a declaration yields the same declaration *)
Theorem reparse_rendering : forall c d,
  in_fragment c d = true -> text_fragment d = true -> parse_statement c (render_decl d) = Ok (SDecl d).
Proof.
  intros c d Hf Ht. unfold parse_statement. rewrite (rendering_lexes_to_its_tokens c d Hf Ht).
  destruct (decl_toks_first c d Hf) as (t & r & Et & Hst).
  assert (Hk : peek KW_ENUM (decl_toks d) = false).
  { rewrite Et. cbn [peek]. apply spec_tok_not; try exact Hst; discriminate. }
  rewrite Hk. unfold p_stmt.
  assert (Hd : p_declaration (decl_fuel (decl_toks d)) c (decl_toks d) = Ok (d, [])).
  { rewrite <- (app_nil_r (decl_toks d)) at 2. apply declaration_roundtrip; [exact Hf | exact I|].
    unfold decl_fuel. pose proof (dsize_le_toks c (S (dsize d)) d ltac:(lia) Hf). lia. }
  pose proof (decl_toks_not_kw c d Hf) as Hkw.
  destruct (tk_of (decl_toks d)); try contradiction; rewrite Hd; reflexivity.
Qed.
