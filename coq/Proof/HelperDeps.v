From Coq Require Import List Bool Arith Lia.
From Shroud Require Import Model.HelperDeps.
Import ListNotations.

Lemma memb_In n l : memb n l = true <-> In n l.
Proof.
  unfold memb. rewrite existsb_exists. split.
  - intros [x [H E]]. apply Nat.eqb_eq in E. subst. exact H.
  - intros H. exists n. split; [exact H | apply Nat.eqb_refl].
Qed.

(* every element's dependencies are below it (were emitted earlier) *)
Fixpoint okout (t : table) (o : list nat) : Prop :=
  match o with
  | [] => True
  | m :: r => (forall d, In d (deps t m) -> In d r) /\ okout t r
  end.

Section DFS.
  Variable t : table.
  Variable rank : nat -> nat.
  Hypothesis Hrank : forall n d, In d (deps t n) -> rank d < rank n.

  (* g = the helpers currently being visited (on the recursion stack) *)
  Definition P (s : dstate) (g : list nat) : Prop :=
    NoDup (out s) /\ incl (out s) (done s) /\
    (forall m, In m (done s) -> In m (out s) \/ In m g) /\ okout t (out s).

  Definition Ext (s s' : dstate) : Prop :=
    (exists l, out s' = l ++ out s) /\ incl (done s) (done s') /\
    (forall m, In m (out s') -> In m (out s) \/ ~ In m (done s)).

  Lemma Ext_refl s : Ext s s.
  Proof. repeat split; [exists []; reflexivity | apply incl_refl | intros m H; left; exact H]. Qed.

  Lemma Ext_trans a b c : incl (out a) (done a) -> Ext a b -> Ext b c -> Ext a c.
  Proof.
    intros Ha [[l1 E1] [I1 N1]] [[l2 E2] [I2 N2]]. repeat split.
    - exists (l2 ++ l1). rewrite E2, E1, app_assoc. reflexivity.
    - eapply incl_tran; eassumption.
    - intros m Hm. destruct (N2 m Hm) as [H|H]; [apply N1; exact H|]. right. intro Hd. apply H. apply I1. exact Hd.
  Qed.

  Lemma visit_ok : forall f s n g, P s g -> (forall x, In x g -> rank n < rank x) -> rank n < f ->
    P (visit f t s n) g /\ Ext s (visit f t s n) /\ In n (out (visit f t s n)).
  Proof.
    induction f as [|f IH]; intros s n g HP Hg Hf; [lia|].
    cbn [visit]. destruct (memb n (done s)) eqn:Em.
    - split; [exact HP|]. split; [apply Ext_refl|].
      apply memb_In in Em. destruct HP as [_ [_ [H3 _]]]. destruct (H3 n Em) as [H|H]; [exact H|].
      specialize (Hg n H). lia.
    - assert (Hnd : ~ In n (done s)) by (intro H; apply memb_In in H; congruence).
      destruct HP as [H1 [H2 [H3 H4]]].
      set (s1 := {| done := n :: done s; out := out s |}).
      assert (HP1 : P s1 (n :: g)).
      { repeat split; simpl; try assumption.
        - intros m Hm. right. apply H2. exact Hm.
        - intros m [<-|Hm]; [right; left; reflexivity|]. destruct (H3 m Hm); [left | right; right]; assumption. }
      (* the loop over the dependencies *)
      assert (Hfold : forall ds s0, (forall d, In d ds -> rank d < rank n) -> P s0 (n :: g) ->
                 P (fold_left (visit f t) ds s0) (n :: g) /\ Ext s0 (fold_left (visit f t) ds s0) /\
                 (forall d, In d ds -> In d (out (fold_left (visit f t) ds s0)))).
      { induction ds as [|d r IHr]; intros s0 Hr HP0; simpl.
        - split; [exact HP0|]. split; [apply Ext_refl | intros d []].
        - assert (Hd : rank d < rank n) by (apply Hr; left; reflexivity).
          destruct (IH s0 d (n :: g) HP0) as [Pa [Ea Ia]].
          { intros x [<-|Hx]; [exact Hd | specialize (Hg x Hx); lia]. }
          { lia. }
          destruct (IHr (visit f t s0 d)) as [Pb [Eb Ib]]; [intros x Hx; apply Hr; right; exact Hx | exact Pa|].
          split; [exact Pb|]. split; [eapply Ext_trans; [apply HP0 | exact Ea | exact Eb]|].
          intros x [<-|Hx]; [|apply Ib; exact Hx].
          destruct Eb as [[l El] _]. rewrite El. apply in_or_app. right. exact Ia. }
      destruct (Hfold (deps t n) s1) as [P2 [E2 I2]]; [intros d Hd; apply Hrank; exact Hd | exact HP1|].
      set (s2 := fold_left (visit f t) (deps t n) s1) in *.
      destruct P2 as [Q1 [Q2 [Q3 Q4]]]. destruct E2 as [[l El] [Il Nl]].
      assert (Hn_out : ~ In n (out s2)).
      { intro H. destruct (Nl n H) as [H'|H']; [apply Hnd; apply H2; exact H' | apply H'; left; reflexivity]. }
      split; [|split].
      + repeat split; simpl.
        * constructor; assumption.
        * intros m [<-|Hm]; [apply Il; left; reflexivity | apply Q2; exact Hm].
        * intros m Hm. destruct (Q3 m Hm) as [H|[<-|H]]; [left; right; exact H | left; left; reflexivity | right; exact H].
        * exact I2.
        * exact Q4.
      + repeat split; simpl.
        * exists (n :: l). rewrite El. reflexivity.
        * intros m Hm. apply Il. right. exact Hm.
        * intros m [<-|Hm]; [right; exact Hnd|]. destruct (Nl m Hm) as [H|H]; [left; exact H|].
          right. intro Hd. apply H. right. exact Hd.
      + left. reflexivity.
  Qed.

  Lemma gather_state_ok : forall f roots s, P s [] -> (forall r, In r roots -> rank r < f) ->
    P (fold_left (visit f t) roots s) [] /\ Ext s (fold_left (visit f t) roots s) /\
    (forall r, In r roots -> In r (out (fold_left (visit f t) roots s))).
  Proof.
    intros f roots. induction roots as [|r rs IH]; intros s HP Hf; simpl.
    - split; [exact HP|]. split; [apply Ext_refl | intros r []].
    - destruct (visit_ok f s r [] HP) as [Pa [Ea Ia]]; [intros x [] | apply Hf; left; reflexivity|].
      destruct (IH (visit f t s r) Pa) as [Pb [Eb Ib]]; [intros x Hx; apply Hf; right; exact Hx|].
      split; [exact Pb|]. split; [eapply Ext_trans; [apply HP | exact Ea | exact Eb]|].
      intros x [<-|Hx]; [|apply Ib; exact Hx].
      destruct Eb as [[l El] _]. rewrite El. apply in_or_app. right. exact Ia.
  Qed.
End DFS.

(* position-based reading of okout on the emitted (oldest first) order *)
Lemma okout_rev_before t o : okout t o -> forall l1 m l2, rev o = l1 ++ m :: l2 ->
  forall d, In d (deps t m) -> In d l1.
Proof.
  induction o as [|x r IH]; intros H l1 m l2 E d Hd.
  - destruct l1; discriminate.
  - simpl in E. destruct H as [Hx Hr].
    destruct (list_eq_dec Nat.eq_dec l2 []) as [->|Hne].
    + apply app_inj_tail in E. destruct E as [E1 E2]. subst. apply -> in_rev. apply Hx. exact Hd.
    + destruct (exists_last Hne) as [l2' [y E2]]. subst l2.
      replace (l1 ++ m :: l2' ++ [y]) with ((l1 ++ m :: l2') ++ [y]) in E by (rewrite <- app_assoc; reflexivity).
      apply app_inj_tail in E. destruct E as [E _].
      eapply IH; eassumption.
Qed.

(* ---- the statement about gather_helper_code ---- *)
Theorem gather_closed_topological t rank fuel roots :
  (forall n d, In d (deps t n) -> rank d < rank n) ->
  (forall r, In r roots -> rank r < fuel) ->
  let o := gather fuel t roots in
  NoDup o /\                                                   (* each helper's code at most once *)
  (forall r, In r roots -> In r o) /\                          (* every requested helper is emitted *)
  (forall m, In m o -> forall d, In d (deps t m) -> In d o) /\ (* closed under dependencies *)
  (forall l1 m l2, o = l1 ++ m :: l2 -> forall d, In d (deps t m) -> In d l1).   (* after its dependencies *)
Proof.
  intros Hrank Hf o. unfold o, gather.
  destruct (gather_state_ok t rank Hrank fuel roots {| done := []; out := [] |}) as [[P1 [P2 [P3 P4]]] [_ I]].
  { repeat split; simpl; [constructor | intros x [] | intros m [] ]. }
  { exact Hf. }
  set (s := fold_left (visit fuel t) roots {| done := []; out := [] |}) in *.
  assert (Hbefore : forall l1 m l2, rev (out s) = l1 ++ m :: l2 -> forall d, In d (deps t m) -> In d l1)
    by (apply okout_rev_before; exact P4).
  repeat split.
  - apply NoDup_rev. exact P1.
  - intros r Hr. apply -> in_rev. apply I. exact Hr.
  - intros m Hm d Hd. apply in_split in Hm. destruct Hm as [l1 [l2 E]].
    rewrite E. apply in_or_app. left. eapply Hbefore; eassumption.
  - exact Hbefore.
Qed.

(* ---- bridge from the computed certificate to the hypothesis of the theorem ---- *)
Lemma ranked_sound t rk : ranked t rk = true ->
  forall n d, In d (deps t n) -> nth d rk 0 < nth n rk 0.
Proof.
  unfold ranked. intros H n d Hd.
  destruct (Nat.lt_ge_cases n (length t)) as [Hn|Hn].
  - rewrite forallb_forall in H. specialize (H n). rewrite in_seq in H. specialize (H ltac:(lia)).
    rewrite forallb_forall in H. specialize (H d Hd). apply andb_true_iff in H. destruct H as [H _].
    apply Nat.ltb_lt in H. exact H.
  - unfold deps in Hd. rewrite nth_overflow in Hd by exact Hn. contradiction.
Qed.

Lemma ranked_deps_exist t rk : ranked t rk = true -> forall n d, In d (deps t n) -> d < length t.
Proof.
  unfold ranked. intros H n d Hd.
  destruct (Nat.lt_ge_cases n (length t)) as [Hn|Hn].
  - rewrite forallb_forall in H. specialize (H n). rewrite in_seq in H. specialize (H ltac:(lia)).
    rewrite forallb_forall in H. specialize (H d Hd). apply andb_true_iff in H. destruct H as [_ H].
    apply Nat.ltb_lt in H. exact H.
  - unfold deps in Hd. rewrite nth_overflow in Hd by exact Hn. contradiction.
Qed.

(* the form used on regenerated tables *)
Theorem gather_on_ranked_table t rk fuel roots :
  ranked t rk = true -> forallb (fun r => Nat.ltb (nth r rk 0) fuel) roots = true ->
  let o := gather fuel t roots in
  NoDup o /\ (forall r, In r roots -> In r o) /\
  (forall m, In m o -> forall d, In d (deps t m) -> In d o) /\
  (forall l1 m l2, o = l1 ++ m :: l2 -> forall d, In d (deps t m) -> In d l1).
Proof.
  intros Hr Hf. apply gather_closed_topological with (rank := fun n => nth n rk 0).
  - apply ranked_sound. exact Hr.
  - intros r Hin. rewrite forallb_forall in Hf. apply Nat.ltb_lt. apply Hf. exact Hin.
Qed.
