(* Proof/Attrs.v — facts about the attribute validation model (Model/Attrs.v). *)
From Coq Require Import List NArith ZArith Bool Arith String Lia.
From Shroud Require Import Base.Ustr Model.Splicer Model.Options Model.Lexer Model.Expr Model.Decl Model.Attrs Proof.Decl.
Import ListNotations.

Lemma nc_ok_unit : nc ok. Proof. apply nc_ok. Qed.
Lemma nc_rej' {A} m : nc (@rej A m). Proof. apply nc_rej. Qed.

Ltac nca_step :=
  match goal with
  | |- nc ok => apply nc_ok_unit
  | |- nc (rej _) => apply nc_rej'
  | _ => nc_step
  end.
Ltac nca := repeat nca_step.

Lemma nc_check_intent d : nc (check_intent d). Proof. unfold check_intent; nca. Qed.
Lemma nc_check_deref d : nc (check_deref d). Proof. unfold check_deref; nca. Qed.
Lemma nc_check_rank_value v : nc (check_rank_value v). Proof. unfold check_rank_value; nca. Qed.
Lemma nc_check_common e d : nc (check_common e d).
Proof. unfold check_common. pose proof nc_check_deref as H1. pose proof nc_check_rank_value as H2. nca. Qed.

Lemma nc_p_shape : forall fuel ts, nc (p_shape fuel ts).
Proof. induction fuel as [|f IH]; [intros; apply nc_oof|]. intros; cbn [p_shape]. pose proof nc_parse_expression as He. nca. Qed.

Lemma nc_check_dimension s : nc (check_dimension s).
Proof. unfold check_dimension. pose proof nc_p_shape as H. nca. Qed.

Lemma nc_parse_attrs d : nc (parse_attrs d).
Proof.
  unfold parse_attrs. destruct (truthy _); [|apply nc_ok_unit]. destruct (aget _ _); try apply nc_rej'.
  pose proof (nc_check_dimension s) as H. destruct (check_dimension s); try apply nc_ok_unit; try apply nc_rej'; try apply nc_oof.
  exfalso; apply (H e); reflexivity.
Qed.

Lemma nc_each {A} (f : A -> result unit) l : (forall a, nc (f a)) -> nc (each_result f l).
Proof. intros H; induction l as [|a r IH]; cbn [each_result]; [apply nc_ok_unit|]. apply nc_bind; [apply H | intros; exact IH]. Qed.

Lemma nc_check_arg : forall fuel e d, nc (check_arg fuel e d).
Proof.
  induction fuel as [|f IH]; [intros; apply nc_oof|]. intros e d; cbn [check_arg].
  pose proof nc_check_intent as H1. pose proof nc_check_common as H2. pose proof nc_parse_attrs as H3.
  destruct (negb (names_ok _ _)); [apply nc_rej'|].
  repeat (apply nc_bind; [solve [nca] | intros ?]).
  destruct (is_fptr d); [|apply nc_ok_unit].
  generalize (match d_params d with Some l => l | None => [] end) as l.
  induction l as [|p0 r IHl]; [apply nc_ok_unit|]. apply nc_bind; [apply IH | intros; exact IHl].
Qed.

Lemma nc_implied_walk : forall decls x, nc (implied_walk decls x).
Proof.
  intros decls. fix IH 1. intros x; destruct x as [n args|v|l op r|op a|a]; cbn [implied_walk]; try apply nc_ok_unit.
  - destruct args as [args|]; [|apply nc_ok_unit].
    destruct (in_strs n _).
    + nca.
    + induction args as [|a r IHl]; [apply nc_ok_unit|]. apply nc_bind; [apply IH | intros; exact IHl].
  - apply nc_bind; [apply IH | intros; apply IH].
  - apply IH.
  - apply IH.
Qed.

Lemma nc_check_implied decls d : nc (check_implied decls d).
Proof. unfold check_implied. pose proof nc_parse_expression as He. pose proof nc_implied_walk as Hw. nca. Qed.

Theorem check_fcn_no_crash : forall e d x, check_fcn e d <> Crash x.
Proof.
  intros e d. change (nc (check_fcn e d)). unfold check_fcn.
  destruct (negb (names_ok _ _)); [apply nc_rej'|].
  apply nc_bind; [apply nc_check_common | intros _].
  apply nc_bind; [apply nc_each; intros; apply nc_check_arg | intros _].
  apply nc_bind; [apply nc_each; intros; apply nc_check_implied | intros _].
  apply nc_parse_attrs.
Qed.

Theorem check_var_no_crash : forall d x, check_var d <> Crash x.
Proof. intros d. change (nc (check_var d)). unfold check_var. pose proof nc_parse_attrs as H. nca. Qed.

Theorem parse_and_verify_no_crash : forall c e v s x, parse_and_verify c e v s <> Crash x.
Proof.
  intros c e v s. change (nc (parse_and_verify c e v s)). unfold parse_and_verify.
  apply nc_bind; [intros x; apply parse_statement_no_crash|].
  intros st; destruct st; try apply nc_ok_unit. destruct v; intros x; [apply check_var_no_crash | apply check_fcn_no_crash].
Qed.

(* ---- acceptance is sound: what validation lets through satisfies every documented rule ---- *)
Lemma bind_ok {A B} (r : result A) (f : A -> result B) b : bind r f = Ok b -> exists a, r = Ok a /\ f a = Ok b.
Proof. destruct r; simpl; try discriminate. intros H; eexists; split; [reflexivity | exact H]. Qed.

Definition is_pointer_like (d : decl) : Prop := indirect d <> 0.

Definition intent_legal (d : decl) : Prop :=
  match aget "intent" d with
  | AVNone => True
  | AVStr s => in_strs (lower s) ["in"; "out"; "inout"]%string = true /\ (indirect d = 0 -> ueqb (lower s) (cp "in") = true)
  | _ => False
  end.
Definition deref_legal (d : decl) : Prop :=
  match aget "deref" d with
  | AVNone => True
  | AVStr s => in_strs s ["allocatable"; "pointer"; "raw"; "scalar"]%string = true /\ is_pointer_like d
  | _ => False
  end.
Definition rank_legal (d : decl) : Prop :=
  match aget "rank" d with
  | AVNone => True
  | AVTrue => False
  | AVStr s => exists z, py_int s = Some z /\ (z <= 7)%Z /\ is_pointer_like d
  | AVInt s => truthy (AVInt s) = false \/ exists z, py_int s = Some z /\ (z <= 7)%Z /\ is_pointer_like d
  | AVReal s => truthy (AVReal s) = false      (* a non-zero floating point rank is outside the model (UNMODELLED) *)
  end.
Definition dimension_legal (d : decl) : Prop :=
  truthy (aget "dimension" d) = true ->
  (exists s, aget "dimension" d = AVStr s /\ exists u, check_dimension s = Ok u) /\
  truthy (aget "value" d) = false /\ truthy (aget "rank" d) = false /\ is_pointer_like d.
Definition owner_legal (d : decl) : Prop :=
  match aget "owner" d with AVNone => True | AVStr s => in_strs s ["caller"; "library"]%string = true | _ => False end.
Definition free_pattern_legal (e : aenv) (d : decl) : Prop :=
  match aget "free_pattern" d with AVNone => True | AVStr s => ustr_in s (patterns e) = true | _ => False end.

Lemma check_intent_sound d : check_intent d = Ok tt -> intent_legal d.
Proof.
  unfold check_intent, intent_legal. destruct (aget "intent" d); try discriminate; auto.
  destruct (in_strs (lower s) _) eqn:E1; cbn [negb]; try discriminate.
  destruct (Nat.eqb (indirect d) 0) eqn:E2; cbn [andb].
  - destruct (ueqb (lower s) (cp "in")) eqn:E3; cbn [negb]; try discriminate. auto.
  - intros _. split; auto. intros H0. apply Nat.eqb_neq in E2. contradiction.
Qed.

Lemma check_deref_sound d : check_deref d = Ok tt -> deref_legal d.
Proof.
  unfold check_deref, deref_legal, is_pointer_like. destruct (aget "deref" d); try discriminate; auto.
  destruct (in_strs s _) eqn:E1; simpl; try discriminate.
  destruct (Nat.eqb (indirect d) 0) eqn:E2; try discriminate. apply Nat.eqb_neq in E2. auto.
Qed.

Lemma check_rank_value_sound v : check_rank_value v = Ok tt ->
  match v with AVTrue | AVReal _ => False | AVStr s | AVInt s => exists z, py_int s = Some z /\ (z <= 7)%Z | AVNone => True end.
Proof.
  destruct v; cbn [check_rank_value]; try discriminate; auto;
    (destruct (py_int s) as [z|]; try discriminate; destruct (7 <? z)%Z eqn:E; try discriminate;
     intros _; exists z; split; [reflexivity | apply Z.ltb_ge; exact E]).
Qed.

Theorem check_common_accepts_only_legal e d : check_common e d = Ok tt ->
  deref_legal d /\ rank_legal d /\ owner_legal d /\ free_pattern_legal e d /\
  (truthy (aget "dimension" d) = true ->
     aget "dimension" d <> AVTrue /\ truthy (aget "value" d) = false /\ truthy (aget "rank" d) = false /\ is_pointer_like d).
Proof.
  unfold check_common. intros H.
  apply bind_ok in H; destruct H as ([] & Hd & H).
  apply bind_ok in H; destruct H as ([] & Hr & H).
  apply bind_ok in H; destruct H as ([] & Hdim & H).
  apply bind_ok in H; destruct H as ([] & Ho & Hf).
  split; [apply check_deref_sound; exact Hd|].
  split.
  { unfold rank_legal, is_pointer_like. destruct (aget "rank" d) eqn:Er; auto.
    - cbn in Hr. discriminate.
    - cbn [truthy] in Hr. apply bind_ok in Hr; destruct Hr as ([] & H1 & H2).
      apply check_rank_value_sound in H1. destruct H1 as (z & Hz & Hle).
      destruct (negb (negb (Nat.eqb (indirect d) 0))) eqn:E; try discriminate.
      exists z; repeat split; auto. intros H0; rewrite H0 in E; discriminate.
    - destruct (truthy (AVInt s)) eqn:Et; [right | left; reflexivity].
      apply bind_ok in Hr; destruct Hr as ([] & H1 & H2).
      apply check_rank_value_sound in H1. destruct H1 as (z & Hz & Hle).
      destruct (negb (negb (Nat.eqb (indirect d) 0))) eqn:E; try discriminate.
      exists z; repeat split; auto. intros H0; rewrite H0 in E; discriminate.
    - destruct (truthy (AVReal s)) eqn:Et; [|reflexivity].
      apply bind_ok in Hr; destruct Hr as ([] & H1 & H2). cbn in H1. discriminate. }
  split.
  { unfold owner_legal. destruct (aget "owner" d); try discriminate; auto. destruct (in_strs s _); try discriminate; auto. }
  split.
  { unfold free_pattern_legal. destruct (aget "free_pattern" d); try discriminate; auto. destruct (ustr_in s _); try discriminate; auto. }
  intros Ht. rewrite Ht in Hdim. unfold is_pointer_like.
  destruct (aget "dimension" d) eqn:Edim; try discriminate;
    (split; [discriminate|]);
    destruct (truthy (aget "value" d)); try discriminate;
    destruct (truthy (aget "rank" d)); try discriminate;
    destruct (negb (negb (Nat.eqb (indirect d) 0))) eqn:E; try discriminate;
    repeat split; auto; intros H0; rewrite H0 in E; discriminate.
Qed.

Definition common_legal (e : aenv) (d : decl) : Prop :=
  deref_legal d /\ rank_legal d /\ owner_legal d /\ free_pattern_legal e d /\
  (truthy (aget "dimension" d) = true ->
     aget "dimension" d <> AVTrue /\ truthy (aget "value" d) = false /\ truthy (aget "rank" d) = false /\ is_pointer_like d).

(* the dimension text is an expression list (or "..") with nothing after it *)
Definition dimension_parses (d : decl) : Prop :=
  truthy (aget "dimension" d) = true -> exists s, aget "dimension" d = AVStr s /\ check_dimension s = Ok tt.

Lemma parse_attrs_sound d : parse_attrs d = Ok tt -> dimension_parses d.
Proof.
  unfold parse_attrs, dimension_parses. intros H Ht. rewrite Ht in H.
  destruct (aget "dimension" d); try discriminate. exists s; split; [reflexivity|].
  destruct (check_dimension s) as [[]| | |]; try discriminate. reflexivity.
Qed.

Definition arg_legal (e : aenv) (d : decl) : Prop :=
  names_ok arg_attr_names d = true /\ intent_legal d /\ common_legal e d /\
  (aget "assumedtype" d <> AVNone -> truthy (aget "value" d) = false) /\
  (truthy (aget "charlen" d) = true ->
     ueqb (tm_base e (d_tm d)) (cp "string") = true /\ indirect d = 1 /\ aget "charlen" d <> AVTrue) /\
  (ueqb (tm_base e (d_tm d)) (cp "vector") = true -> d_targs d <> []) /\
  (ueqb (tm_base e (d_tm d)) (cp "vector") = false -> d_targs d = []) /\
  dimension_parses d.

Theorem check_arg_accepts_only_legal : forall f e d, check_arg (S f) e d = Ok tt -> arg_legal e d.
Proof.
  intros f e d H. cbn [check_arg] in H. unfold arg_legal.
  destruct (names_ok arg_attr_names d) eqn:En; cbn [negb] in H; [|discriminate].
  apply bind_ok in H; destruct H as ([] & Hi & H).
  apply bind_ok in H; destruct H as ([] & Hc & H).
  apply bind_ok in H; destruct H as ([] & Ha & H).
  apply bind_ok in H; destruct H as ([] & Hl & H).
  apply bind_ok in H; destruct H as ([] & Hv & H).
  apply bind_ok in H; destruct H as ([] & Hp & _).
  split; [reflexivity|]. split; [apply check_intent_sound; exact Hi|].
  split; [apply check_common_accepts_only_legal; exact Hc|].
  split.
  { intros Hn. destruct (aget "assumedtype" d) eqn:E; try contradiction; cbn [is_none negb] in Ha;
      destruct (truthy (aget "value" d)); try discriminate; reflexivity. }
  split.
  { intros Ht. rewrite Ht in Hl.
    destruct (ueqb (tm_base e (d_tm d)) (cp "string")); cbn [negb] in Hl; [|discriminate].
    destruct (Nat.eqb (indirect d) 1) eqn:E1; cbn [negb] in Hl; [|discriminate].
    apply Nat.eqb_eq in E1. repeat split; auto. intros Hc'. rewrite Hc' in Hl. discriminate. }
  split.
  { intros Hb. rewrite Hb in Hv. destruct (d_targs d); [discriminate|]. discriminate. }
  split.
  { intros Hb. rewrite Hb in Hv. destruct (d_targs d); [reflexivity|discriminate]. }
  apply parse_attrs_sound; exact Hp.
Qed.

Definition implied_legal (decls : list decl) (d : decl) : Prop :=
  truthy (aget "implied" d) = true ->
  exists s x rest y, aget "implied" d = AVStr s /\ parse_expression (tokenize s) = Ok (x, rest) /\
                     mustbe EOF rest = Ok y /\ implied_walk decls x = Ok tt.

Lemma check_implied_sound decls d : check_implied decls d = Ok tt -> implied_legal decls d.
Proof.
  unfold check_implied, implied_legal. intros H Ht. rewrite Ht in H.
  destruct (aget "implied" d); try discriminate.
  apply bind_ok in H; destruct H as ([x rest] & Hp & H).
  apply bind_ok in H; destruct H as (y & Hm & Hw).
  exists s, x, rest, y. auto.
Qed.

Lemma each_result_ok {A} (f : A -> result unit) l : each_result f l = Ok tt -> Forall (fun a => f a = Ok tt) l.
Proof.
  induction l as [|a r IH]; cbn [each_result]; intros H; [constructor|].
  apply bind_ok in H; destruct H as ([] & Ha & Hr). constructor; auto.
Qed.

Definition fparams (d : decl) : list decl := match d_params d with Some l => l | None => [] end.

(* what check_fcn_attrs lets through: legal attribute names and values on the function and on every parameter *)
Theorem check_fcn_accepts_only_legal : forall e d, check_fcn e d = Ok tt ->
  names_ok fcn_attr_names d = true /\ common_legal e d /\ dimension_parses d /\
  Forall (arg_legal e) (fparams d) /\ Forall (implied_legal (fparams d)) (fparams d).
Proof.
  intros e d H. unfold check_fcn in H. fold (fparams d) in H.
  destruct (names_ok fcn_attr_names d) eqn:En; cbn [negb] in H; [|discriminate].
  apply bind_ok in H; destruct H as ([] & Hc & H).
  apply bind_ok in H; destruct H as ([] & Ha & H).
  apply bind_ok in H; destruct H as ([] & Hi & Hp).
  split; [reflexivity|]. split; [apply check_common_accepts_only_legal; exact Hc|].
  split; [apply parse_attrs_sound; exact Hp|].
  split.
  - apply each_result_ok in Ha. eapply Forall_impl; [|exact Ha].
    intros a Hx. eapply check_arg_accepts_only_legal. exact Hx.
  - apply each_result_ok in Hi. eapply Forall_impl; [|exact Hi].
    intros a Hx. apply check_implied_sound; exact Hx.
Qed.

Theorem check_var_accepts_only_legal : forall d, check_var d = Ok tt ->
  names_ok var_attr_names d = true /\ (truthy (aget "dimension" d) = true -> is_pointer_like d) /\ dimension_parses d.
Proof.
  intros d H. unfold check_var in H.
  destruct (names_ok var_attr_names d) eqn:En; cbn [negb] in H; [|discriminate].
  split; [reflexivity|].
  destruct (truthy (aget "dimension" d)) eqn:Et; cbn [andb] in H.
  - destruct (Nat.eqb (indirect d) 0) eqn:E0; [discriminate|]. apply Nat.eqb_neq in E0.
    split; [intros _; exact E0|]. apply parse_attrs_sound; exact H.
  - split; [discriminate|]. apply parse_attrs_sound; exact H.
Qed.

(* direct forms: an attribute name outside the documented list is rejected *)
Theorem illegal_function_attribute_rejected : forall e d, names_ok fcn_attr_names d = false -> exists m, check_fcn e d = Reject m.
Proof. intros e d H. unfold check_fcn. rewrite H. eexists; reflexivity. Qed.
Theorem illegal_variable_attribute_rejected : forall d, names_ok var_attr_names d = false -> exists m, check_var d = Reject m.
Proof. intros d H. unfold check_var. rewrite H. eexists; reflexivity. Qed.
Theorem illegal_argument_attribute_rejected : forall f e d, names_ok arg_attr_names d = false -> exists m, check_arg (S f) e d = Reject m.
Proof. intros f e d H. cbn [check_arg]. rewrite H. eexists; reflexivity. Qed.
