(* Proof/Text.v — lemmas about Model/Text.v (write_continue). *)
From Coq Require Import List NArith ZArith Bool Arith Lia.
From Shroud Require Import Base.Ustr Model.Text.
Import ListNotations.

(* ---------- generic helpers ---------- *)
Lemma nows_app a b : nows (a ++ b) = nows a ++ nows b.
Proof. unfold nows. apply filter_app. Qed.

Lemma nows_lstrip s : nows (lstrip s) = nows s.
Proof.
  induction s as [|c r IH]; simpl; [reflexivity|].
  destruct (py_isspace c) eqn:E; simpl; rewrite ?E; simpl; auto.
Qed.

Lemma nows_rev s : nows (rev s) = rev (nows s).
Proof.
  induction s as [|c r IH]; simpl; [reflexivity|].
  rewrite nows_app, IH. simpl. destruct (py_isspace c); simpl; [rewrite app_nil_r|]; reflexivity.
Qed.

Lemma lstrip_suffix s : exists w, s = w ++ lstrip s /\ forallb py_isspace w = true.
Proof.
  induction s as [|c r [w [Hw Hs]]]; simpl.
  - exists []. split; reflexivity.
  - destruct (py_isspace c) eqn:E.
    + exists (c :: w). split; [simpl; congruence | simpl; rewrite E; exact Hs].
    + exists []. split; reflexivity.
Qed.

(* ---------- parts ---------- *)
Definition text_of (pt : part) : ustr := match pt with PText t => t | PFF => [] end.
Definition texts (ps : list part) : list ustr := map text_of ps.

Definition is_hint (c : N) : bool := N.eqb c TAB || N.eqb c FF.
Definition dehint (l : ustr) : ustr := filter (fun c => negb (is_hint c)) l.

Lemma texts_app a b : texts (a ++ b) = texts a ++ texts b.
Proof. apply map_app. Qed.

Lemma concat_texts_flush cur : concat (texts (flush cur)) = rev cur.
Proof. destruct cur; simpl; [reflexivity| rewrite app_nil_r; reflexivity]. Qed.

Lemma split_aux_dehint l : forall cur,
  concat (texts (split_aux cur l)) = rev cur ++ dehint l.
Proof.
  induction l as [|c r IH]; intros cur; simpl.
  - rewrite concat_texts_flush, app_nil_r. reflexivity.
  - unfold is_hint. destruct (N.eqb c TAB) eqn:ET; simpl.
    + rewrite texts_app, concat_app, concat_texts_flush, IH. reflexivity.
    + destruct (N.eqb c FF) eqn:EF; simpl.
      * rewrite texts_app, concat_app, concat_texts_flush. simpl. rewrite IH. reflexivity.
      * rewrite IH. simpl. rewrite <- app_assoc. reflexivity.
Qed.

(* the text of the parts is the logical line with only the break hints removed *)
Lemma split_parts_dehint l : concat (texts (split_parts l)) = dehint l.
Proof. unfold split_parts. rewrite split_aux_dehint. reflexivity. Qed.

Lemma hint_is_space c : is_hint c = true -> py_isspace c = true.
Proof.
  unfold is_hint, TAB, FF. intros H. apply orb_true_iff in H.
  destruct H as [H|H]; apply N.eqb_eq in H; subst; reflexivity.
Qed.

Lemma nows_dehint l : nows (dehint l) = nows l.
Proof.
  induction l as [|c r IH]; simpl; [reflexivity|].
  destruct (is_hint c) eqn:E; simpl.
  - rewrite (hint_is_space _ E). simpl. exact IH.
  - rewrite IH. reflexivity.
Qed.

(* no part is empty, no part contains a hint *)
Definition part_ok (pt : part) : Prop :=
  match pt with PText t => t <> [] /\ forallb (fun c => negb (is_hint c)) t = true | PFF => True end.

Lemma flush_ok cur : forallb (fun c => negb (is_hint c)) cur = true -> Forall part_ok (flush cur).
Proof.
  intros H. destruct cur as [|c r]; simpl; [constructor|].
  constructor; [|constructor]. split.
  - intro E. apply (f_equal (@length N)) in E. rewrite app_length in E. simpl in E. lia.
  - change (rev r ++ [c]) with (rev (c :: r)). rewrite forallb_forall in *. intros x Hx.
    apply H. apply in_rev. exact Hx.
Qed.

Lemma split_aux_ok l : forall cur, forallb (fun c => negb (is_hint c)) cur = true ->
  Forall part_ok (split_aux cur l).
Proof.
  induction l as [|c r IH]; intros cur Hc; simpl.
  - apply flush_ok; assumption.
  - destruct (N.eqb c TAB) eqn:ET.
    + apply Forall_app. split; [apply flush_ok; assumption | apply IH; reflexivity].
    + destruct (N.eqb c FF) eqn:EF.
      * apply Forall_app. split; [apply flush_ok; assumption|].
        constructor; [exact I | apply IH; reflexivity].
      * apply IH. simpl. unfold is_hint. rewrite ET, EF. simpl. exact Hc.
Qed.

Lemma split_parts_ok l : Forall part_ok (split_parts l).
Proof. apply split_aux_ok. reflexivity. Qed.

(* ---------- the greedy loop ---------- *)
Definition all_lines (s : st) : list (ustr * list ustr) := rev (done s) ++ [(base s, pieces s)].
Definition payload (l : ustr * list ustr) : ustr := concat (snd l).
Definition payloads (s : st) : list ustr := map payload (all_lines s).
Definition groups (s : st) : list (list ustr) := map snd (all_lines s).

Definition line_ok (p : wparams) (l : ustr * list ustr) : Prop :=
  length (render_line l) <= linelen p \/ length (snd l) <= 1.

Definition st_ok (p : wparams) (s : st) : Prop :=
  Forall (line_ok p) (done s) /\ line_ok p (base s, pieces s).

Lemma step_ok p ci s pt : st_ok p s -> st_ok p (step p ci s pt).
Proof.
  intros [Hd Hc]. destruct pt as [t|]; simpl.
  - destruct (Nat.ltb (linelen p) (cur_len s + length t) && Nat.ltb 0 (length (pieces s))) eqn:E.
    + split; simpl; [constructor; assumption|].
      right. destruct (lstrip t); simpl; lia.
    + split; simpl; [assumption|].
      apply andb_false_iff in E. destruct E as [E|E].
      * apply Nat.ltb_ge in E. left. unfold render_line, cur_len in *. simpl.
        rewrite concat_app, !app_length. simpl. rewrite app_nil_r. lia.
      * apply Nat.ltb_ge in E. right. simpl. rewrite app_length. simpl. lia.
  - split; simpl; [constructor; assumption | right; simpl; lia].
Qed.

Lemma fold_step_ok p ci parts : forall s, st_ok p s -> st_ok p (fold_left (step p ci) parts s).
Proof.
  induction parts as [|pt r IH]; intros s H; simpl; [exact H|].
  apply IH. apply step_ok. exact H.
Qed.

Lemma run_length p ci parts : Forall (line_ok p) (all_lines (run p ci parts)).
Proof.
  unfold run.
  assert (H : st_ok p {| base := ind p 0; pieces := []; done := [] |}).
  { split; simpl; [constructor | right; simpl; lia]. }
  apply (fold_step_ok p ci parts) in H. destruct H as [Hd Hc].
  unfold all_lines. apply Forall_app. split.
  - apply Forall_rev. exact Hd.
  - constructor; [exact Hc | constructor].
Qed.

(* ---------- preservation ---------- *)
(* t' is t, possibly with leading white space removed *)
Definition lstrip_or_same (t t' : ustr) : Prop := t' = t \/ t' = lstrip t.

(* all pieces seen so far, oldest first, INCLUDING parts that were stripped to nothing *)
Definition flat (s : st) : ustr := concat (map payload (all_lines s)).

Lemma flat_unfold s : flat s = concat (map payload (rev (done s))) ++ concat (pieces s).
Proof.
  unfold flat, all_lines. rewrite map_app, concat_app. simpl. rewrite app_nil_r. reflexivity.
Qed.

Lemma flat_push b pc d b' pc' :
  flat {| base := b'; pieces := pc'; done := (b, pc) :: d |} =
  flat {| base := b; pieces := pc; done := d |} ++ concat pc'.
Proof.
  rewrite !flat_unfold. simpl. rewrite map_app, concat_app. simpl.
  unfold payload at 2. simpl. rewrite app_nil_r. reflexivity.
Qed.

Lemma st_eta s : s = {| base := base s; pieces := pieces s; done := done s |}.
Proof. destruct s; reflexivity. Qed.

Lemma step_flat p ci s pt :
  exists t', lstrip_or_same (text_of pt) t' /\ flat (step p ci s pt) = flat s ++ t'.
Proof.
  destruct pt as [t|]; simpl.
  - destruct (Nat.ltb (linelen p) (cur_len s + length t) && Nat.ltb 0 (length (pieces s))) eqn:E.
    + exists (lstrip t). split; [right; reflexivity|].
      rewrite flat_push, <- st_eta. f_equal.
      destruct (lstrip t); simpl; rewrite ?app_nil_r; reflexivity.
    + exists t. split; [left; reflexivity|].
      rewrite !flat_unfold. simpl. rewrite concat_app. simpl. rewrite app_nil_r, app_assoc. reflexivity.
  - exists []. split; [left; reflexivity|].
    rewrite flat_push, <- st_eta. reflexivity.
Qed.

Lemma fold_flat p ci parts : forall s,
  exists ts', Forall2 lstrip_or_same (texts parts) ts' /\
              flat (fold_left (step p ci) parts s) = flat s ++ concat ts'.
Proof.
  induction parts as [|pt r IH]; intros s; simpl.
  - exists []. split; [constructor | rewrite app_nil_r; reflexivity].
  - destruct (step_flat p ci s pt) as [t' [Ht Hf]].
    destruct (IH (step p ci s pt)) as [ts' [Hts Hff]].
    exists (t' :: ts'). split; [constructor; assumption|].
    rewrite Hff, Hf. simpl. rewrite app_assoc. reflexivity.
Qed.

Lemma run_flat p ci parts :
  exists ts', Forall2 lstrip_or_same (texts parts) ts' /\ flat (run p ci parts) = concat ts'.
Proof.
  unfold run. destruct (fold_flat p ci parts {| base := ind p 0; pieces := []; done := [] |}) as [ts' [H1 H2]].
  exists ts'. split; [exact H1|]. rewrite H2. reflexivity.
Qed.

Lemma lstrip_or_same_nows t t' : lstrip_or_same t t' -> nows t' = nows t.
Proof. intros [H|H]; subst; [reflexivity | apply nows_lstrip]. Qed.

Lemma nows_concat_F2 ts ts' : Forall2 lstrip_or_same ts ts' -> nows (concat ts') = nows (concat ts).
Proof.
  induction 1 as [|t t' r r' Ht _ IH]; simpl; [reflexivity|].
  rewrite !nows_app, IH, (lstrip_or_same_nows _ _ Ht). reflexivity.
Qed.

Lemma run_nows p ci parts : nows (flat (run p ci parts)) = nows (concat (texts parts)).
Proof.
  destruct (run_flat p ci parts) as [ts' [H1 H2]]. rewrite H2. apply nows_concat_F2. exact H1.
Qed.

(* ---------- every piece on a physical line is a (possibly left-stripped) part:
   breaks happen only at part boundaries, i.e. at tab / form-feed positions ---------- *)
Definition all_pieces (s : st) : list ustr := concat (groups s).

Lemma all_pieces_unfold s : all_pieces s = concat (map snd (rev (done s))) ++ pieces s.
Proof.
  unfold all_pieces, groups, all_lines. rewrite map_app, concat_app. simpl. rewrite app_nil_r. reflexivity.
Qed.

(* sub-sequence relation: l1 is obtained from l2 by deleting elements that are [] *)
Inductive drop_empties : list ustr -> list ustr -> Prop :=
| de_nil : drop_empties [] []
| de_keep x a b : drop_empties a b -> drop_empties (x :: a) (x :: b)
| de_drop a b : drop_empties a b -> drop_empties a ([] :: b).

Lemma drop_empties_refl l : drop_empties l l.
Proof. induction l; constructor; assumption. Qed.

Lemma drop_empties_app a b c d : drop_empties a b -> drop_empties c d -> drop_empties (a ++ c) (b ++ d).
Proof. induction 1; simpl; intros; try constructor; auto. Qed.

Lemma all_pieces_push b pc d b' pc' :
  all_pieces {| base := b'; pieces := pc'; done := (b, pc) :: d |} =
  all_pieces {| base := b; pieces := pc; done := d |} ++ pc'.
Proof.
  rewrite !all_pieces_unfold. simpl. rewrite map_app, concat_app. simpl.
  rewrite app_nil_r. reflexivity.
Qed.

Lemma drop_empties_trans x y z : drop_empties x y -> drop_empties y z -> drop_empties x z.
Proof.
  intros Hxy Hyz. revert x Hxy. induction Hyz; intros x0 Hxy.
  - exact Hxy.
  - inversion Hxy; subst; constructor; auto.
  - constructor. auto.
Qed.

Lemma step_pieces p ci s pt :
  exists t', lstrip_or_same (text_of pt) t' /\
    drop_empties (all_pieces (step p ci s pt)) (all_pieces s ++ [t']).
Proof.
  destruct pt as [t|]; simpl.
  - destruct (Nat.ltb (linelen p) (cur_len s + length t) && Nat.ltb 0 (length (pieces s))) eqn:E.
    + exists (lstrip t). split; [right; reflexivity|].
      rewrite all_pieces_push, <- st_eta.
      apply drop_empties_app; [apply drop_empties_refl|].
      destruct (lstrip t); repeat constructor.
    + exists t. split; [left; reflexivity|].
      rewrite !all_pieces_unfold. simpl. rewrite app_assoc. apply drop_empties_refl.
  - exists []. split; [left; reflexivity|].
    rewrite all_pieces_push, <- st_eta.
    apply drop_empties_app; [apply drop_empties_refl | repeat constructor].
Qed.

Lemma fold_pieces p ci parts : forall s,
  exists ts', Forall2 lstrip_or_same (texts parts) ts' /\
    drop_empties (all_pieces (fold_left (step p ci) parts s)) (all_pieces s ++ ts').
Proof.
  induction parts as [|pt r IH]; intros s; simpl.
  - exists []. split; [constructor | rewrite app_nil_r; apply drop_empties_refl].
  - destruct (step_pieces p ci s pt) as [t' [Ht Hd]].
    destruct (IH (step p ci s pt)) as [ts' [Hts Hdd]].
    exists (t' :: ts'). split; [constructor; assumption|].
    eapply drop_empties_trans; [exact Hdd|].
    replace (all_pieces s ++ t' :: ts') with ((all_pieces s ++ [t']) ++ ts') by (rewrite <- app_assoc; reflexivity).
    apply drop_empties_app; [exact Hd | apply drop_empties_refl].
Qed.

Lemma run_pieces p ci parts :
  exists ts', Forall2 lstrip_or_same (texts parts) ts' /\
    drop_empties (all_pieces (run p ci parts)) ts'.
Proof.
  unfold run. destruct (fold_pieces p ci parts {| base := ind p 0; pieces := []; done := [] |}) as [ts' [H1 H2]].
  exists ts'. split; assumption.
Qed.

(* ---------- indentation of physical lines ---------- *)
Definition Pb (p : wparams) (ci : Z) (l : list (ustr * list ustr)) : Prop :=
  match l with
  | [] => False
  | a :: r => fst a = ind p 0 /\ Forall (fun x => fst x = ind p ci) r
  end.
Definition bases_ok (p : wparams) (ci : Z) (s : st) : Prop := Pb p ci (all_lines s).

Lemma Pb_snoc p ci l y : Pb p ci l -> fst y = ind p ci -> Pb p ci (l ++ [y]).
Proof.
  destruct l as [|a r]; simpl; [tauto|]. intros [H1 H2] Hy. split; [exact H1|].
  apply Forall_app. split; [exact H2 | repeat constructor; exact Hy].
Qed.

Lemma Pb_replace_last p ci L x x' : Pb p ci (L ++ [x]) -> fst x' = fst x -> Pb p ci (L ++ [x']).
Proof.
  destruct L as [|a r]; simpl.
  - intros [H1 _] E. split; [congruence | constructor].
  - intros [H1 H2] E. split; [exact H1|]. apply Forall_app in H2. destruct H2 as [H2 H3].
    apply Forall_app. split; [exact H2|]. inversion H3; subst. repeat constructor. congruence.
Qed.

Lemma step_bases p ci s pt : bases_ok p ci s -> bases_ok p ci (step p ci s pt).
Proof.
  unfold bases_ok, all_lines. intros H.
  destruct pt as [t|]; simpl.
  - destruct (Nat.ltb (linelen p) (cur_len s + length t) && Nat.ltb 0 (length (pieces s))); simpl.
    + apply Pb_snoc; [exact H | reflexivity].
    + eapply Pb_replace_last; [exact H | reflexivity].
  - apply Pb_snoc; [exact H | reflexivity].
Qed.

Lemma run_bases p ci parts : bases_ok p ci (run p ci parts).
Proof.
  unfold run. assert (H : bases_ok p ci {| base := ind p 0; pieces := []; done := [] |}).
  { unfold bases_ok, all_lines, Pb. simpl. split; [reflexivity | constructor]. }
  revert H. generalize {| base := ind p 0; pieces := []; done := [] |}.
  induction parts as [|pt r IH]; intros s H; simpl; [exact H|].
  apply IH. apply step_bases. exact H.
Qed.

(* ---------- form feed always breaks ---------- *)
Definition count_ff (ps : list part) : nat :=
  length (filter (fun pt => match pt with PFF => true | _ => false end) ps).

Lemma fold_ff p ci parts : forall s,
  length (done s) + count_ff parts <= length (done (fold_left (step p ci) parts s)).
Proof.
  induction parts as [|pt r IH]; intros s; simpl; [unfold count_ff; simpl; lia|].
  specialize (IH (step p ci s pt)). unfold count_ff in *. destruct pt as [t|]; simpl in *.
  - destruct (Nat.ltb (linelen p) (cur_len s + length t) && Nat.ltb 0 (length (pieces s))); simpl in *; lia.
  - lia.
Qed.

(* ---------- rendering ---------- *)
Lemma render_shape p s :
  render p s = map (fun x => x ++ cont p) (map render_line (rev (done s))) ++ [render_line (base s, pieces s)].
Proof. unfold render. rewrite map_map. reflexivity. Qed.

Lemma render_length p s : length (render p s) = S (length (done s)).
Proof. unfold render. rewrite app_length, map_length, rev_length. simpl. lia. Qed.

(* ================= top-level statements about write_continue ================= *)

Definition body (line : ustr) : ustr :=
  match line with c :: r => if N.eqb c CR then r else line | [] => [] end.
Definition cindent (line : ustr) : Z :=
  match line with c :: _ => if N.eqb c CR then 2%Z else 1%Z | [] => 1%Z end.

Lemma wc_body_run p line : wc_body p line = run p (cindent line) (split_parts (body line)).
Proof. destruct line as [|c r]; simpl; [reflexivity|]. destruct (N.eqb c CR); reflexivity. Qed.

Lemma nows_body line : nows (body line) = nows line.
Proof.
  destruct line as [|c r]; simpl; [reflexivity|].
  destruct (N.eqb c CR) eqn:E; [|reflexivity].
  apply N.eqb_eq in E. subst. reflexivity.
Qed.

(* T1: no non-blank character is lost, duplicated or reordered *)
Lemma wc_preserves p line : nows (concat (payloads (wc_body p line))) = nows line.
Proof.
  rewrite wc_body_run. change (concat (payloads ?x)) with (flat x).
  unfold payloads. change (concat (map payload (all_lines ?x))) with (flat x).
  rewrite run_nows, split_parts_dehint, nows_dehint. apply nows_body.
Qed.

(* T1 strong: the payload text is the concatenation of the parts, each either
   unchanged or left-stripped; the parts are the line with its hints removed *)
Lemma wc_preserves_strong p line :
  exists ts', Forall2 lstrip_or_same (texts (split_parts (body line))) ts' /\
              concat (payloads (wc_body p line)) = concat ts' /\
              concat (texts (split_parts (body line))) = dehint (body line).
Proof.
  rewrite wc_body_run. destruct (run_flat p (cindent line) (split_parts (body line))) as [ts' [H1 H2]].
  exists ts'. repeat split; [exact H1 | exact H2 | apply split_parts_dehint].
Qed.

(* T2: a physical line is over-long only when it holds at most one part *)
Lemma wc_length p line : Forall (line_ok p) (all_lines (wc_body p line)).
Proof. rewrite wc_body_run. apply run_length. Qed.

(* T3: every physical line but the last carries the continuation marker *)
Lemma wc_cont p line :
  let s := wc_body p line in
  render p s = map (fun x => x ++ cont p) (map render_line (rev (done s)))
               ++ [render_line (base s, pieces s)].
Proof. apply render_shape. Qed.

(* T4: physical lines are made of whole parts: breaks only at hint positions *)
Lemma wc_breaks_at_hints p line :
  exists ts', Forall2 lstrip_or_same (texts (split_parts (body line))) ts' /\
              drop_empties (concat (groups (wc_body p line))) ts'.
Proof. rewrite wc_body_run. apply run_pieces. Qed.

(* T5: indentation *)
Lemma wc_indent p line : bases_ok p (cindent line) (wc_body p line).
Proof. rewrite wc_body_run. apply run_bases. Qed.

(* T6: a form feed always forces a break *)
Lemma wc_ff p line :
  S (count_ff (split_parts (body line))) <= length (render p (wc_body p line)).
Proof.
  rewrite render_length, wc_body_run. unfold run.
  pose proof (fold_ff p (cindent line) (split_parts (body line))
                {| base := ind p 0; pieces := []; done := [] |}) as H.
  simpl in H. lia.
Qed.

(* ================= write_lines on plain lines ================= *)
Definition is_directive (c : N) : bool :=
  N.eqb c HASH || N.eqb c AT || N.eqb c CARET || N.eqb c PLUS || N.eqb c MINUS.

Definition plain (s : ustr) : bool :=
  match s with
  | [] => false
  | c :: _ => negb (is_directive c) && negb (last_is PLUS s) && forallb (fun x => negb (N.eqb x LF)) s
  end.

Lemma write_subline_plain p i s : plain s = true ->
  write_subline p i s = Ok (render (with_indent p i) (wc_body (with_indent p i) s), i).
Proof.
  destruct s as [|c r]; [discriminate|]. unfold plain, is_directive.
  intros H. apply andb_true_iff in H. destruct H as [H _].
  apply andb_true_iff in H. destruct H as [H1 H2].
  apply negb_true_iff in H1. apply negb_true_iff in H2.
  repeat (apply orb_false_iff in H1; destruct H1 as [H1 ?]).
  unfold write_subline. rewrite H1, H0, H3, H4.
  unfold strip_minus. rewrite H. rewrite H2. rewrite Z.sub_0_r. reflexivity.
Qed.

Lemma split_on_aux_noLF s : forall cur, forallb (fun x => negb (N.eqb x LF)) s = true ->
  split_on_aux LF cur s = [rev cur ++ s].
Proof.
  induction s as [|c r IH]; intros cur H; simpl.
  - rewrite app_nil_r. reflexivity.
  - simpl in H. apply andb_true_iff in H. destruct H as [H1 H2].
    apply negb_true_iff in H1. rewrite H1. rewrite IH by assumption. simpl.
    rewrite <- app_assoc. reflexivity.
Qed.

Lemma plain_noLF s : plain s = true -> split_on LF s = [s].
Proof.
  destruct s as [|c r]; [discriminate|]. unfold plain. intros H.
  apply andb_true_iff in H. destruct H as [_ H].
  unfold split_on. rewrite split_on_aux_noLF by assumption. reflexivity.
Qed.

(* plain lines go through write_continue unchanged and leave the indentation alone *)
Lemma write_lines_plain p ls : forall i, forallb plain ls = true ->
  write_lines_from p i (map OStr ls) =
  Ok (concat (map (fun s => render (with_indent p i) (wc_body (with_indent p i) s)) ls), i).
Proof.
  induction ls as [|s r IH]; intros i H; simpl; [reflexivity|].
  simpl in H. apply andb_true_iff in H. destruct H as [Hs Hr].
  rewrite (plain_noLF _ Hs). simpl. rewrite (write_subline_plain _ _ _ Hs). simpl.
  rewrite (IH i Hr). simpl. rewrite app_nil_r. reflexivity.
Qed.

(* an integer entry only moves the indentation *)
Lemma write_lines_int p i d r : write_lines_from p i (OInt d :: r) = write_lines_from p (i + d)%Z r.
Proof. reflexivity. Qed.
