From Coq Require Import List Bool.
From Shroud Require Import Model.Registry.
Import ListNotations.

Section Runs.
  Variables regs input output : Type.
  Variable fresh : regs.
  Variable reinit : regs -> input -> regs.
  Variable body : regs -> input -> regs * output.

  (* If what a run reads has been rebuilt from the input alone (reinit does not depend on the old
     contents), the output after ANY history equals the output of a fresh process. *)
  Lemma history_independent :
    (forall s1 s2 x, reinit s1 x = reinit s2 x) ->
    forall h1 h2 x, output_after regs input output fresh reinit body h1 x =
                    output_after regs input output fresh reinit body h2 x.
  Proof.
    intros H h1 h2 x. unfold output_after, run.
    rewrite (H (after regs input output reinit body fresh h1) (after regs input output reinit body fresh h2) x).
    reflexivity.
  Qed.

  (* ... and the registry contents left behind depend on the last input only *)
  Lemma state_depends_on_last_input :
    (forall s1 s2 x, reinit s1 x = reinit s2 x) ->
    forall h1 h2 x, after regs input output reinit body fresh (h1 ++ [x]) =
                    after regs input output reinit body fresh (h2 ++ [x]).
  Proof.
    intros H h1 h2 x.
    assert (G : forall h s, after regs input output reinit body s (h ++ [x]) =
                            fst (run regs input output reinit body (after regs input output reinit body s h) x)).
    { induction h as [|y r IH]; intros s; simpl; [reflexivity | apply IH]. }
    rewrite !G. unfold run.
    rewrite (H (after regs input output reinit body fresh h1) (after regs input output reinit body fresh h2) x).
    reflexivity.
  Qed.
End Runs.
