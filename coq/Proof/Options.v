From Coq Require Import List NArith ZArith Bool String Lia Arith.
From Shroud Require Import Base.Ustr Model.Splicer Model.Scope Model.Options.
Import ListNotations.

Lemma cli_bool b : cli_value (typed (VBool b)) = VBool b.
Proof. destruct b; reflexivity. Qed.

Definition reserved (s : ustr) : bool :=
  ueqb s (cp "true") || ueqb s (cp "True") || ueqb s (cp "false") || ueqb s (cp "False").

Lemma cli_string s : reserved s = false -> py_int s = None -> cli_value (typed (VStr s)) = VStr s.
Proof.
  unfold reserved, cli_value. simpl typed. intros H Hi.
  apply orb_false_iff in H. destruct H as [H H4].
  apply orb_false_iff in H. destruct H as [H H3].
  apply orb_false_iff in H. destruct H as [H1 H2].
  rewrite H1, H2, H3, H4, Hi. reflexivity.
Qed.

(* ---------- decimal round trip ---------- *)
Definition parse_from (a : N) (ds : ustr) : N := fold_left (fun a d => (10 * a + (d - 48))%N) ds a.
Definition all_digits (ds : ustr) : bool := forallb is_digit ds.

Lemma is_digit_N_digit n : (n < 10)%N -> is_digit (N_digit n) = true.
Proof. intros H. unfold is_digit, N_digit. apply andb_true_iff. split; apply N.leb_le; lia. Qed.

Lemma pos_digits_spec f : forall n acc, (N.to_nat n < f)%nat -> all_digits acc = true ->
  all_digits (pos_digits f n acc) = true /\ pos_digits f n acc <> [].
Proof.
  induction f as [|f IH]; intros n acc H Ha; [lia|]. simpl.
  assert (Hd : is_digit (N_digit (n mod 10)) = true) by (apply is_digit_N_digit; apply N.mod_lt; lia).
  destruct (n / 10 =? 0)%N eqn:E.
  - split; [simpl; rewrite Hd; exact Ha | discriminate].
  - apply IH; [|simpl; rewrite Hd; exact Ha].
    apply N.eqb_neq in E. assert (n <> 0)%N by (intro Z0; subst n; apply E; reflexivity). assert (n / 10 < n)%N by (apply N.div_lt; lia). lia.
Qed.

Lemma parse_from_cons a d ds : parse_from a (d :: ds) = parse_from (10 * a + (d - 48))%N ds.
Proof. reflexivity. Qed.

(* value of digits(n) ++ acc read from accumulator 0 *)
Lemma pos_digits_parse f : forall n acc, (N.to_nat n < f)%nat ->
  parse_from 0 (pos_digits f n acc) = parse_from n acc.
Proof.
  induction f as [|f IH]; intros n acc H; [lia|]. cbn [pos_digits].
  destruct (n / 10 =? 0)%N eqn:E.
  - apply N.eqb_eq in E. rewrite parse_from_cons. unfold N_digit. f_equal.
    pose proof (N.div_mod n 10 ltac:(discriminate)) as DM. set (q := (n / 10)%N) in *. set (r := (n mod 10)%N) in *. clearbody q r. clear -DM E. lia.
  - apply N.eqb_neq in E. assert (n <> 0)%N by (intro Z0; subst n; apply E; reflexivity).
    assert (n / 10 < n)%N by (apply N.div_lt; lia).
    rewrite IH by lia. rewrite parse_from_cons. unfold N_digit. f_equal.
    pose proof (N.div_mod n 10 ltac:(discriminate)) as DM. set (q := (n / 10)%N) in *. set (r := (n mod 10)%N) in *. clearbody q r. clear -DM. lia.
Qed.

Lemma dv_digits ds : forall acc pd, all_digits ds = true -> (ds <> [] \/ pd = true) ->
  dv ds acc pd = Some (parse_from acc ds).
Proof.
  induction ds as [|c r IH]; intros acc pd Ha Hne.
  - destruct Hne as [Hne| ->]; [contradiction | reflexivity].
  - simpl in Ha. apply andb_true_iff in Ha. destruct Ha as [Hc Hr]. cbn [dv]. rewrite Hc.
    rewrite parse_from_cons. apply IH; [exact Hr | right; reflexivity].
Qed.

Lemma digit_not_space c : is_digit c = true -> py_isspace c = false.
Proof.
  unfold is_digit. intros H. apply andb_true_iff in H. destruct H as [H1 H2].
  apply N.leb_le in H1. apply N.leb_le in H2. unfold py_isspace.
  repeat match goal with
  | |- context [(?a <=? c)%N] => let E := fresh in destruct (N.leb_spec a c) as [E|E]; try lia
  | |- context [(c <=? ?a)%N] => let E := fresh in destruct (N.leb_spec c a) as [E|E]; try lia
  | |- context [(c =? ?a)%N] => let E := fresh in destruct (N.eqb_spec c a) as [E|E]; try lia
  end; reflexivity.
Qed.

Lemma lstrip_digits ds : all_digits ds = true -> lstrip ds = ds.
Proof. destruct ds as [|c r]; [reflexivity|]. simpl. intros H. apply andb_true_iff in H. destruct H as [H _].
  rewrite (digit_not_space _ H). reflexivity. Qed.

Lemma all_digits_rev ds : all_digits (rev ds) = all_digits ds.
Proof.
  unfold all_digits. induction ds as [|c r IH]; [reflexivity|]. simpl.
  rewrite forallb_app, IH. simpl. rewrite andb_true_r. apply andb_comm.
Qed.

Lemma rstrip_digits ds : all_digits ds = true -> rstrip ds = ds.
Proof. intros H. unfold rstrip. rewrite lstrip_digits by (rewrite all_digits_rev; exact H). apply rev_involutive. Qed.

Lemma digits_of_pos p :
  let ds := pos_digits (S (Pos.to_nat p)) (Npos p) [] in
  all_digits ds = true /\ ds <> [] /\ parse_from 0 ds = Npos p.
Proof.
  intros ds. assert (H : (N.to_nat (Npos p) < S (Pos.to_nat p))%nat) by (simpl; lia).
  destruct (pos_digits_spec _ (Npos p) [] H eq_refl) as [H1 H2].
  split; [exact H1 | split; [exact H2|]]. unfold ds. rewrite pos_digits_parse by exact H. reflexivity.
Qed.

Lemma py_int_decimal z : py_int (decimal z) = Some z.
Proof.
  destruct z as [|p|p].
  - reflexivity.
  - destruct (digits_of_pos p) as [Ha [Hne Hv]]. unfold decimal.
    set (ds := pos_digits (S (Pos.to_nat p)) (N.pos p) []) in *.
    unfold py_int. rewrite lstrip_digits, rstrip_digits by exact Ha.
    destruct ds as [|c r] eqn:E; [contradiction|].
    assert (Hc : is_digit c = true) by (simpl in Ha; apply andb_true_iff in Ha; tauto).
    assert (c <> 45 /\ c <> 43)%N as [H45 H43].
    { unfold is_digit in Hc. apply andb_true_iff in Hc. destruct Hc as [Hc _]. apply N.leb_le in Hc. lia. }
    apply N.eqb_neq in H45. apply N.eqb_neq in H43. rewrite H45, H43.
    rewrite dv_digits; [|exact Ha | left; discriminate]. rewrite Hv. reflexivity.
  - destruct (digits_of_pos p) as [Ha [Hne Hv]]. unfold decimal.
    set (ds := pos_digits (S (Pos.to_nat p)) (N.pos p) []) in *.
    unfold py_int.
    assert (Hl : lstrip (45%N :: ds) = 45%N :: ds) by reflexivity. rewrite Hl.
    assert (Hr : rstrip (45%N :: ds) = 45%N :: ds).
    { unfold rstrip. simpl rev. destruct ds as [|c r] eqn:E; [contradiction|].
      assert (Hlast : exists x l, rev (c :: r) = x :: l /\ is_digit x = true).
      { destruct (rev (c :: r)) as [|x l] eqn:Er.
        - apply (f_equal (@List.length N)) in Er. rewrite rev_length in Er. discriminate.
        - exists x, l. split; [reflexivity|].
          assert (all_digits (x :: l) = true) by (rewrite <- Er, all_digits_rev; exact Ha).
          simpl in H. apply andb_true_iff in H. tauto. }
      destruct Hlast as [x [l [Er Hx]]]. rewrite Er. simpl. rewrite (digit_not_space _ Hx).
      change (rev ((x :: l) ++ [45%N]) = 45%N :: c :: r). rewrite <- Er.
      rewrite rev_app_distr, rev_involutive. reflexivity. }
    rewrite Hr. rewrite N.eqb_refl.
    rewrite dv_digits; [|exact Ha | left; exact Hne]. rewrite Hv. reflexivity.
Qed.

Lemma decimal_not_reserved z : reserved (decimal z) = false.
Proof.
  destruct z as [|p|p]; [reflexivity| |reflexivity].
  destruct (digits_of_pos p) as [Ha [Hne _]]. unfold decimal.
  destruct (pos_digits (S (Pos.to_nat p)) (N.pos p) []) as [|c r]; [contradiction|].
  assert (Hc : is_digit c = true) by (simpl in Ha; apply andb_true_iff in Ha; tauto).
  unfold is_digit in Hc. apply andb_true_iff in Hc. destruct Hc as [H1 H2].
  apply N.leb_le in H1. apply N.leb_le in H2.
  unfold reserved. simpl.
  assert (E1 : (c =? 116)%N = false) by (apply N.eqb_neq; lia).
  assert (E2 : (c =? 84)%N = false) by (apply N.eqb_neq; lia).
  assert (E3 : (c =? 102)%N = false) by (apply N.eqb_neq; lia).
  assert (E4 : (c =? 70)%N = false) by (apply N.eqb_neq; lia).
  rewrite E1, E2, E3, E4. reflexivity.
Qed.

Lemma cli_int z : cli_value (typed (VInt z)) = VInt z.
Proof.
  pose proof (decimal_not_reserved z) as H. unfold reserved in H.
  apply orb_false_iff in H. destruct H as [H H4].
  apply orb_false_iff in H. destruct H as [H H3].
  apply orb_false_iff in H. destruct H as [H1 H2].
  unfold cli_value. simpl typed. rewrite H1, H2, H3, H4. simpl. rewrite py_int_decimal. reflexivity.
Qed.

(* ---------- general facts about py_int on digit strings (used by the enum proofs) ---------- *)
Lemma py_int_digits ds : all_digits ds = true -> ds <> [] ->
  py_int ds = Some (Z.of_N (parse_from 0 ds)).
Proof.
  intros Ha Hne. unfold py_int. rewrite lstrip_digits, rstrip_digits by exact Ha.
  destruct ds as [|c r]; [contradiction|].
  assert (Hc : is_digit c = true) by (simpl in Ha; apply andb_true_iff in Ha; tauto).
  assert (c <> 45 /\ c <> 43)%N as [H45 H43].
  { unfold is_digit in Hc. apply andb_true_iff in Hc. destruct Hc as [Hc _]. apply N.leb_le in Hc. lia. }
  apply N.eqb_neq in H45. apply N.eqb_neq in H43. rewrite H45, H43.
  rewrite dv_digits; [reflexivity | exact Ha | left; discriminate].
Qed.

Lemma strip_sign_digits s ds : (s = 45 \/ s = 43)%N -> all_digits ds = true -> ds <> [] ->
  rstrip (lstrip (s :: ds)) = s :: ds.
Proof.
  intros Hs Ha Hne.
  assert (Hl : lstrip (s :: ds) = s :: ds) by (destruct Hs; subst; reflexivity). rewrite Hl.
  unfold rstrip. simpl rev. destruct ds as [|c r] eqn:E; [contradiction|].
  assert (Hlast : exists x l, rev (c :: r) = x :: l /\ is_digit x = true).
  { destruct (rev (c :: r)) as [|x l] eqn:Er.
    - apply (f_equal (@List.length N)) in Er. rewrite rev_length in Er. discriminate.
    - exists x, l. split; [reflexivity|].
      assert (all_digits (x :: l) = true) by (rewrite <- Er, all_digits_rev; exact Ha).
      simpl in H. apply andb_true_iff in H. tauto. }
  destruct Hlast as [x [l [Er Hx]]]. rewrite Er. simpl. rewrite (digit_not_space _ Hx).
  change (rev ((x :: l) ++ [s]) = s :: c :: r). rewrite <- Er.
  rewrite rev_app_distr, rev_involutive. reflexivity.
Qed.

Lemma py_int_neg_digits ds : all_digits ds = true -> ds <> [] ->
  py_int (45%N :: ds) = Some (- Z.of_N (parse_from 0 ds))%Z.
Proof.
  intros Ha Hne. unfold py_int. rewrite strip_sign_digits by (auto).
  rewrite N.eqb_refl. rewrite dv_digits; [reflexivity | exact Ha | left; exact Hne].
Qed.

Lemma py_int_pos_digits ds : all_digits ds = true -> ds <> [] ->
  py_int (43%N :: ds) = Some (Z.of_N (parse_from 0 ds)).
Proof.
  intros Ha Hne. unfold py_int. rewrite strip_sign_digits by (auto).
  change ((43 =? 45)%N) with false. rewrite N.eqb_refl.
  rewrite dv_digits; [reflexivity | exact Ha | left; exact Hne].
Qed.

(* decimal k : digits, non-empty, value k *)
Lemma decimal_nonneg k : (0 <= k)%Z ->
  all_digits (decimal k) = true /\ decimal k <> [] /\ parse_from 0 (decimal k) = Z.to_N k.
Proof.
  intros Hk. destruct k as [|p|p]; [repeat split; discriminate | | lia].
  destruct (digits_of_pos p) as [Ha [Hne Hv]]. unfold decimal. repeat split; assumption.
Qed.
