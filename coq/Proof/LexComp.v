(* Proof/LexComp.v — the lexer on texts built from words, blanks and punctuation: pieces that end in a blank or a
   punctuation character can be followed by anything, pieces that end in a word must be followed by a non-word
   character; under these side conditions the tokens of a concatenation are the concatenation of the tokens. *)
From Coq Require Import List NArith ZArith Bool Arith String Lia.
From Shroud Require Import Base.Ustr Model.Splicer Model.Lexer.
Import ListNotations.

(* what may follow a word: the end or a character that is not part of a word *)
Definition brk (r : ustr) : Prop := match r with [] => True | c :: _ => is_alnum_ c = false end.

(* s lexes to ts whatever follows (Any) / when a non-word character follows (Weak); fuel is existential so that
   no general progress lemma about next_token is needed *)
Definition Any (s : ustr) (ts : list tok) : Prop :=
  forall r f, List.length (s ++ r) < f -> exists f', List.length r < f' /\ lex_fuel f (s ++ r) = ts ++ lex_fuel f' r.
Definition Weak (s : ustr) (ts : list tok) : Prop :=
  forall r f, brk r -> List.length (s ++ r) < f -> exists f', List.length r < f' /\ lex_fuel f (s ++ r) = ts ++ lex_fuel f' r.

(* the start of a piece that may follow a word *)
Definition okstart (s : ustr) (ts : list tok) : Prop :=
  match s with [] => ts = [] | c :: _ => is_alnum_ c = false end.

Lemma any_nil : Any [] [].
Proof. intros r f H. exists f. split; [exact H | reflexivity]. Qed.

Lemma any_weak s ts : Any s ts -> Weak s ts.
Proof. intros H r f _ Hf. apply H; exact Hf. Qed.

Lemma any_app s1 t1 s2 t2 : Any s1 t1 -> Any s2 t2 -> Any (s1 ++ s2) (t1 ++ t2).
Proof.
  intros H1 H2 r f Hf. rewrite <- app_assoc in *. destruct (H1 (s2 ++ r) f Hf) as (f1 & Hf1 & E1).
  destruct (H2 r f1 Hf1) as (f2 & Hf2 & E2). exists f2. split; [exact Hf2|]. rewrite E1, E2, app_assoc. reflexivity.
Qed.

Lemma any_weak_app s1 t1 s2 t2 : Any s1 t1 -> Weak s2 t2 -> Weak (s1 ++ s2) (t1 ++ t2).
Proof.
  intros H1 H2 r f Hb Hf. rewrite <- app_assoc in *. destruct (H1 (s2 ++ r) f Hf) as (f1 & Hf1 & E1).
  destruct (H2 r f1 Hb Hf1) as (f2 & Hf2 & E2). exists f2. split; [exact Hf2|]. rewrite E1, E2, app_assoc. reflexivity.
Qed.

Lemma brk_app s2 t2 r : okstart s2 t2 -> brk r -> s2 <> [] -> brk (s2 ++ r).
Proof. destruct s2 as [|c s]; [contradiction|]. intros H _ _. exact H. Qed.

Lemma weak_weak_app s1 t1 s2 t2 : Weak s1 t1 -> Weak s2 t2 -> okstart s2 t2 -> Weak (s1 ++ s2) (t1 ++ t2).
Proof.
  intros H1 H2 Hs r f Hb Hf. destruct s2 as [|c s2'].
  - cbn [okstart] in Hs. subst t2. rewrite !app_nil_r in *. apply H1; assumption.
  - rewrite <- app_assoc in *. destruct (H1 ((c :: s2') ++ r) f Hs Hf) as (f1 & Hf1 & E1).
    destruct (H2 r f1 Hb Hf1) as (f2 & Hf2 & E2). exists f2. split; [exact Hf2|]. rewrite E1, E2, app_assoc. reflexivity.
Qed.

Lemma weak_any_app s1 t1 s2 t2 : Weak s1 t1 -> Any s2 t2 -> s2 <> [] -> okstart s2 t2 -> Any (s1 ++ s2) (t1 ++ t2).
Proof.
  intros H1 H2 Hne Hs r f Hf. destruct s2 as [|c s2']; [contradiction|].
  rewrite <- app_assoc in *. destruct (H1 ((c :: s2') ++ r) f Hs Hf) as (f1 & Hf1 & E1).
  destruct (H2 r f1 Hf1) as (f2 & Hf2 & E2). exists f2. split; [exact Hf2|]. rewrite E1, E2, app_assoc. reflexivity.
Qed.

(* ---- base pieces ---- *)
Lemma any_space : Any [32%N] [].
Proof.
  intros r f Hf. destruct f as [|f']; [cbn in Hf; lia|]. exists f'. split; [cbn in Hf; lia|].
  cbn [app lex_fuel]. reflexivity.
Qed.

Definition punct_tok (c : N) (k : tkind) : tok := {| tk := k; tv := [c] |}.

Lemma any_punct c k : In (c, k) [(40, LPAREN); (41, RPAREN); (42, STAR); (38, REF); (44, COMMA)]%N -> Any [c] [punct_tok c k].
Proof.
  intros Hin r f Hf. destruct f as [|f']; [cbn in Hf; lia|]. exists f'. split; [cbn in Hf; lia|].
  cbn [In] in Hin. repeat (destruct Hin as [Hin | Hin]; [inversion Hin; subst; reflexivity|]). contradiction.
Qed.

(* words *)
Definition wordb (w : ustr) : bool := match w with c :: w' => is_alpha_ c && forallb is_alnum_ w' | [] => false end.
Definition word_tok (w : ustr) : tok := {| tk := classify_id w; tv := w |}.

Lemma span_word : forall w r, forallb is_alnum_ w = true -> brk r -> span is_alnum_ (w ++ r) = (w, r).
Proof.
  induction w as [|c w IH]; intros r Hw Hb.
  - cbn [app]. destruct r as [|c r]; [reflexivity|]. cbn [span]. cbn [brk] in Hb. rewrite Hb. reflexivity.
  - cbn [forallb] in Hw. apply andb_true_iff in Hw. destruct Hw as [Hc Hw]. cbn [app span]. rewrite Hc, (IH r Hw Hb). reflexivity.
Qed.

Lemma alpha_facts c : is_alpha_ c = true ->
  is_dig c = false /\ (c =? 46)%N = false /\ (c =? 34)%N = false /\ (c =? 39)%N = false /\ single c = None /\ (c =? 58)%N = false.
Proof.
  unfold is_alpha_, is_dig, single. intros H.
  assert (Hr : (65 <= c <= 90 \/ 97 <= c <= 122 \/ c = 95)%N).
  { apply orb_true_iff in H. destruct H as [H | H].
    - apply orb_true_iff in H. destruct H as [H | H]; apply andb_true_iff in H; destruct H as [H1 H2];
        apply N.leb_le in H1; apply N.leb_le in H2; lia.
    - apply N.eqb_eq in H. lia. }
  assert (Hne : forall k, (k < 65 \/ (90 < k /\ k < 95) \/ k = 96 \/ 122 < k)%N -> (c =? k)%N = false).
  { intros k Hk. apply N.eqb_neq. lia. }
  repeat split; try (apply Hne; lia).
  - apply andb_false_iff. destruct (N.leb_spec 48 c); [right; apply N.leb_gt; lia | left; reflexivity].
  - rewrite !Hne by lia. reflexivity.
Qed.

Lemma next_token_word w r : wordb w = true -> brk r -> next_token (w ++ r) = (Some (word_tok w), r).
Proof.
  destruct w as [|c w']; [discriminate|]. intros Hw Hb. cbn [wordb] in Hw. apply andb_true_iff in Hw. destruct Hw as [Hc Hw].
  destruct (alpha_facts c Hc) as (Hd & H46 & H34 & H39 & Hsg & H58).
  assert (Hal : is_alnum_ c = true) by (unfold is_alnum_; rewrite Hc; reflexivity).
  unfold next_token. cbn [app].
  assert (Hmr : match_real (c :: w' ++ r) = None).
  { unfold match_real. cbn [span]. rewrite Hd, H46. reflexivity. }
  rewrite Hmr, Hd, H34, H39, Hsg, H58, H46, Hc.
  change (c :: w' ++ r) with ((c :: w') ++ r). rewrite span_word; [reflexivity | cbn [forallb]; rewrite Hal, Hw; reflexivity | exact Hb].
Qed.

Lemma weak_word w : wordb w = true -> Weak w [word_tok w].
Proof.
  intros Hw r f Hb Hf. destruct f as [|f']; [lia|]. exists f'.
  assert (Hl : 1 <= List.length w) by (destruct w; [discriminate | cbn [List.length]; lia]).
  rewrite app_length in Hf. split; [lia|].
  cbn [lex_fuel]. destruct (w ++ r) eqn:E; [destruct w; discriminate|]. rewrite <- E, next_token_word by assumption. reflexivity.
Qed.

(* the whole text *)
Lemma weak_tokenize s ts : Weak s ts -> tokenize s = ts.
Proof.
  intros H. unfold tokenize. destruct (H [] (S (List.length s)) I) as (f' & _ & E).
  - rewrite app_nil_r. lia.
  - rewrite app_nil_r in E. rewrite E. destruct f'; cbn [lex_fuel]; rewrite app_nil_r; reflexivity.
Qed.

(* the same with the conclusion's lists left to unification up to conversion *)
Lemma weak_any_app' s1 t1 s2 t2 : Any s1 t1 -> Weak s2 t2 -> Weak (s1 ++ s2) (t1 ++ t2).
Proof. apply any_weak_app. Qed.
