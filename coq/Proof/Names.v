(* Proof/Names.v — the overload numbering gives every callable signature of a scope its own name. *)
From Coq Require Import List NArith ZArith Bool Arith String Lia.
From Shroud Require Import Base.Ustr Model.Splicer Model.Options Proof.Options Model.Names.
Import ListNotations.

(* ---- strings ---- *)
Lemma ueqb_refl s : ueqb s s = true.
Proof. induction s as [|c r IH]; cbn [ueqb]; [reflexivity|]. rewrite N.eqb_refl. exact IH. Qed.
Lemma ueqb_eq a : forall b, ueqb a b = true -> a = b.
Proof.
  induction a as [|x a IH]; intros [|y b] H; cbn [ueqb] in H; try discriminate; [reflexivity|].
  apply andb_true_iff in H. destruct H as [H1 H2]. apply N.eqb_eq in H1. subst. f_equal. apply IH; exact H2.
Qed.
Lemma ueqb_neq a b : ueqb a b = false -> a <> b.
Proof. intros H E. subst. rewrite ueqb_refl in H. discriminate. Qed.

(* x ++ a :: d1 = y ++ a :: d2 with a in neither tail: same split *)
Lemma split_at_last_sep (a : N) : forall d1 d2 x y, ~ In a d1 -> ~ In a d2 ->
  x ++ a :: d1 = y ++ a :: d2 -> x = y /\ d1 = d2.
Proof.
  intros d1 d2 x y H1 H2 E.
  assert (Er : rev d1 ++ a :: rev x = rev d2 ++ a :: rev y).
  { apply (f_equal (@rev N)) in E. rewrite !rev_app_distr in E. cbn [rev] in E. rewrite <- !app_assoc in E. exact E. }
  assert (G : forall l1 l2 r1 r2, ~ In a l1 -> ~ In a l2 -> l1 ++ a :: r1 = l2 ++ a :: r2 -> l1 = l2 /\ r1 = r2).
  { induction l1 as [|c l1 IH]; intros [|c2 l2] r1 r2 N1 N2 E2; cbn [app] in E2.
    - inversion E2. auto.
    - inversion E2; subst. exfalso. apply N2. left. reflexivity.
    - inversion E2; subst. exfalso. apply N1. left. reflexivity.
    - inversion E2; subst. destruct (IH l2 r1 r2) as [A B]; auto.
      + intros Hin. apply N1. right. exact Hin.
      + intros Hin. apply N2. right. exact Hin.
      + subst. auto. }
  destruct (G (rev d1) (rev d2) (rev x) (rev y)) as [A B].
  - intros Hin. apply H1. apply in_rev. exact Hin.
  - intros Hin. apply H2. apply in_rev. exact Hin.
  - exact Er.
  - split.
    + apply (f_equal (@rev N)) in B. rewrite !rev_involutive in B. exact B.
    + apply (f_equal (@rev N)) in A. rewrite !rev_involutive in A. exact A.
Qed.

Lemma digits_no_underscore ds : all_digits ds = true -> ~ In 95%N ds.
Proof.
  unfold all_digits. intros H Hin. rewrite forallb_forall in H. specialize (H _ Hin). unfold is_digit in H.
  apply andb_true_iff in H. destruct H as [_ H]. apply N.leb_le in H. lia.
Qed.

Lemma decimal_nat_digits k : all_digits (decimal (Z.of_nat k)) = true.
Proof. destruct (decimal_nonneg (Z.of_nat k)) as [H _]; [lia | exact H]. Qed.

Lemma decimal_nat_inj a b : decimal (Z.of_nat a) = decimal (Z.of_nat b) -> a = b.
Proof.
  intros E. assert (H : Some (Z.of_nat a) = Some (Z.of_nat b)) by (rewrite <- !py_int_decimal, E; reflexivity).
  inversion H. lia.
Qed.

(* two numbered names are equal only if base and number are *)
Lemma numbered_inj x y a b :
  x ++ 95%N :: decimal (Z.of_nat a) = y ++ 95%N :: decimal (Z.of_nat b) -> x = y /\ a = b.
Proof.
  intros E. destruct (split_at_last_sep 95%N _ _ _ _ (digits_no_underscore _ (decimal_nat_digits a))
                                         (digits_no_underscore _ (decimal_nat_digits b)) E) as [A B].
  split; [exact A | apply decimal_nat_inj; exact B].
Qed.

(* ---- the plain configuration: no explicit suffixes, templates or generics ---- *)
Definition plain (f : fn) : Prop := f_suffix f = None /\ f_das f = [] /\ f_tmpl f = [] /\ f_generic f = [].

Definition plain_emitted (e : emitted) : Prop := e_fs e = [] /\ e_fs_local e = false /\ e_ts e = [] /\ e_templ e = false /\ e_c e = true /\ e_f e = true.

Lemma expand_one_plain i f : plain f -> Forall plain_emitted (expand_one i f) /\
  List.length (expand_one i f) = S (f_ndef f) /\ Forall (fun e => e_name e = f_name f /\ e_src e = i) (expand_one i f).
Proof.
  intros (Hs & Hd & Ht & Hg). unfold expand_one. rewrite Hs, Hd, Ht. cbn [opt_or is_some List.length combine map app negb].
  assert (Hn : forall j, nth_error (@nil ustr) j = None) by (intros [|j]; reflexivity).
  split; [|split].
  - apply Forall_app. split.
    + apply Forall_forall. intros e Hin. apply in_map_iff in Hin. destruct Hin as (j & Hj & _). rewrite Hn in Hj. subst e.
      repeat split.
    + constructor; [|constructor]. destruct (f_ndef f); [|rewrite Hn]; repeat split.
  - rewrite app_length, map_length, seq_length. cbn. lia.
  - apply Forall_app. split.
    + apply Forall_forall. intros e Hin. apply in_map_iff in Hin. destruct Hin as (j & Hj & _). rewrite Hn in Hj. subst e. split; reflexivity.
    + constructor; [|constructor]. destruct (f_ndef f); [|rewrite Hn]; split; reflexivity.
Qed.

Lemma expand_from_plain : forall fs i, Forall plain fs ->
  Forall plain_emitted (expand_from i fs) /\
  List.length (expand_from i fs) = fold_right (fun f n => S (f_ndef f) + n) 0 fs /\
  Forall (fun e => exists f, nth_error fs (e_src e - i) = Some f /\ i <= e_src e /\ e_name e = f_name f) (expand_from i fs).
Proof.
  induction fs as [|f fs IH]; intros i Hp; cbn [expand_from fold_right].
  - repeat split; constructor.
  - inversion Hp as [|? ? Hf Hfs]; subst. destruct (expand_one_plain i f Hf) as (A & B & C).
    destruct (IH (S i) Hfs) as (A' & B' & C').
    split; [apply Forall_app; auto|]. split; [rewrite app_length, B, B'; reflexivity|].
    apply Forall_app. split.
    + eapply Forall_impl; [|exact C]. intros e (Hn & Hi). exists f. rewrite Hi, Nat.sub_diag. cbn. auto.
    + eapply Forall_impl; [|exact C']. intros e (g & Hg & Hle & Hn). exists g.
      replace (e_src e - i) with (S (e_src e - S i)) by lia. cbn. split; [exact Hg | split; [lia | exact Hn]].
Qed.

(* ---- numbering ---- *)
Lemma number_length l : List.length (number l) = List.length l.
Proof. unfold number. rewrite map_length, combine_length, seq_length. lia. Qed.

Lemma number_nth l i e : nth_error l i = Some e -> nth_error (number l) i = Some (relabel l i e).
Proof.
  intros H. unfold number.
  assert (Hi : i < List.length l) by (apply nth_error_Some; rewrite H; discriminate).
  rewrite nth_error_map.
  assert (Hc : forall s, nth_error (combine (seq s (List.length l)) l) i = Some (s + i, e)).
  { clear Hi. revert i H. induction l as [|x l IH]; intros i H s; [destruct i; discriminate|].
    cbn [List.length seq combine]. destruct i as [|i]; cbn [nth_error] in *.
    - inversion H. f_equal. f_equal. lia.
    - rewrite (IH i H (S s)). f_equal. f_equal. lia. }
  specialize (Hc 0). cbn [Nat.add] in Hc.
  rewrite Hc. reflexivity.
Qed.

Lemma group_size_firstn_mono n l i j : i <= j -> group_size n (firstn i l) <= group_size n (firstn j l).
Proof.
  intros Hij. unfold group_size. revert i j Hij. induction l as [|x l IH]; intros i j Hij.
  - rewrite !firstn_nil. lia.
  - destruct i as [|i]; [cbn; lia|]. destruct j as [|j]; [lia|]. cbn [firstn filter].
    specialize (IH i j ltac:(lia)). destruct (in_group n x); cbn [List.length]; lia.
Qed.

Lemma group_size_firstn_step n l i e : nth_error l i = Some e -> in_group n e = true ->
  group_size n (firstn (S i) l) = S (group_size n (firstn i l)).
Proof.
  unfold group_size. revert i. induction l as [|x l IH]; intros i H Hg; [destruct i; discriminate|].
  destruct i as [|i]; cbn [nth_error] in H.
  - inversion H; subst. cbn [firstn filter]. rewrite Hg. reflexivity.
  - specialize (IH i H Hg). cbn [firstn] in IH. cbn [firstn filter].
    destruct (in_group n x); cbn [List.length]; rewrite IH; reflexivity.
Qed.

Lemma group_size_firstn_le n l i : group_size n (firstn i l) <= group_size n l.
Proof.
  unfold group_size. revert i. induction l as [|x l IH]; intros i; [rewrite firstn_nil; lia|].
  destruct i; [cbn; lia|]. cbn [firstn filter]. specialize (IH i). destruct (in_group n x); cbn [List.length]; lia.
Qed.

Lemma group_size_pos n l i e : nth_error l i = Some e -> in_group n e = true -> 1 <= group_size n l.
Proof.
  intros H Hg. pose proof (group_size_firstn_step n l i e H Hg). pose proof (group_size_firstn_le n l (S i)). lia.
Qed.

(* two members of one group at different positions: different counts; and then the group has two members *)
Lemma same_group_counts n l i j ei ej : i < j -> nth_error l i = Some ei -> nth_error l j = Some ej ->
  in_group n ei = true -> in_group n ej = true ->
  group_size n (firstn i l) < group_size n (firstn j l) /\ 1 < group_size n l.
Proof.
  intros Hij Hi Hj Gi Gj.
  pose proof (group_size_firstn_step n l i ei Hi Gi) as S1.
  pose proof (group_size_firstn_mono n l (S i) j ltac:(lia)) as M.
  pose proof (group_size_firstn_step n l j ej Hj Gj) as S2.
  pose proof (group_size_firstn_le n l (S j)) as L. lia.
Qed.

Lemma relabel_plain l i e : plain_emitted e ->
  e_name (relabel l i e) = e_name e /\ e_ts (relabel l i e) = [] /\ e_c (relabel l i e) = true /\ e_f (relabel l i e) = true /\
  e_src (relabel l i e) = e_src e /\ e_origin (relabel l i e) = e_origin e /\
  e_fs (relabel l i e) = if Nat.ltb 1 (group_size (e_name e) l) then 95%N :: decimal (Z.of_nat (group_size (e_name e) (firstn i l))) else [].
Proof.
  intros (Hfs & Hl & Hts & Ht & Hc & Hf). unfold relabel. rewrite Ht, Hl. cbn [negb andb].
  destruct (Nat.ltb 1 (group_size (e_name e) l)); cbn [andb e_name e_ts e_c e_f e_fs e_src e_origin]; repeat split; auto.
Qed.

Definition names_separable (fs : list fn) : Prop :=
  (forall f g, In f fs -> In g fs -> un_camel (f_name f) = un_camel (f_name g) -> f_name f = f_name g) /\
  (forall f g k, In f fs -> In g fs -> un_camel (f_name f) <> un_camel (f_name g) ++ 95%N :: decimal (Z.of_nat k)).

Lemma in_group_self e : e_templ e = false -> in_group (e_name e) e = true.
Proof. intros H. unfold in_group. rewrite H, ueqb_refl. reflexivity. Qed.

(* the core: in a numbered plain list, base name ++ suffix is injective in the position *)
Lemma numbered_plain_injective (fs : list fn) (L : list emitted) :
  names_separable fs -> Forall plain_emitted L ->
  Forall (fun e => exists f, In f fs /\ e_name e = f_name f) L ->
  forall i j ei ej, nth_error L i = Some ei -> nth_error L j = Some ej ->
  un_camel (e_name ei) ++ e_fs (relabel L i ei) = un_camel (e_name ej) ++ e_fs (relabel L j ej) -> i = j.
Proof.
  intros (H1 & H2) Hp Hn.
  assert (W : forall i j ei ej, i < j -> nth_error L i = Some ei -> nth_error L j = Some ej ->
              un_camel (e_name ei) ++ e_fs (relabel L i ei) = un_camel (e_name ej) ++ e_fs (relabel L j ej) -> False).
  { intros i j ei ej Hij Hi Hj E.
    rewrite Forall_forall in Hp, Hn.
    pose proof (Hp _ (nth_error_In _ _ Hi)) as Pi. pose proof (Hp _ (nth_error_In _ _ Hj)) as Pj.
    destruct (Hn _ (nth_error_In _ _ Hi)) as (fi & Fi & Ni). destruct (Hn _ (nth_error_In _ _ Hj)) as (fj & Fj & Nj).
    destruct (relabel_plain L i ei Pi) as (_ & _ & _ & _ & _ & _ & Si).
    destruct (relabel_plain L j ej Pj) as (_ & _ & _ & _ & _ & _ & Sj).
    rewrite Si, Sj in E. clear Si Sj.
    destruct Pi as (_ & _ & _ & Ti & _). destruct Pj as (_ & _ & _ & Tj & _).
    destruct (ueqb (e_name ei) (e_name ej)) eqn:En.
    - apply ueqb_eq in En.
      destruct (same_group_counts (e_name ei) L i j ei ej Hij Hi Hj (in_group_self _ Ti)) as (Hlt & Hgs).
      { rewrite En. apply in_group_self; exact Tj. }
      rewrite <- En in E. apply Nat.ltb_lt in Hgs. rewrite Hgs in E.
      apply app_inv_head in E. inversion E as [E']. apply decimal_nat_inj in E'. lia.
    - apply ueqb_neq in En.
      destruct (Nat.ltb 1 (group_size (e_name ei) L)), (Nat.ltb 1 (group_size (e_name ej) L)).
      + apply numbered_inj in E. destruct E as [E _]. rewrite Ni, Nj in *. apply En. apply H1; auto.
      + rewrite app_nil_r in E. rewrite Ni, Nj in E. symmetry in E. eapply H2; [exact Fj | exact Fi | exact E].
      + rewrite app_nil_r in E. rewrite Ni, Nj in E. eapply H2; [exact Fi | exact Fj | exact E].
      + rewrite !app_nil_r in E. rewrite Ni, Nj in *. apply En. apply H1; auto. }
  intros i j ei ej Hi Hj E.
  destruct (Nat.lt_trichotomy i j) as [Hlt | [Heq | Hgt]]; [exfalso; eapply W; eauto | exact Heq | exfalso; eapply W; eauto].
Qed.

Lemma generic_one_plain fs e : (exists f, nth_error fs (e_src e) = Some f /\ f_generic f = []) -> generic_one fs e = [e].
Proof. intros (f & Hf & Hg). unfold generic_one. rewrite Hf, Hg. destruct (e_origin e); reflexivity. Qed.

Lemma flat_map_singleton {A} (f : A -> list A) l : Forall (fun x => f x = [x]) l -> flat_map f l = l.
Proof. induction 1 as [|x l Hx Hl IH]; cbn [flat_map]; [reflexivity|]. rewrite Hx, IH. reflexivity. Qed.

Lemma filter_all {A} (p : A -> bool) l : (forall x, In x l -> p x = true) -> filter p l = l.
Proof.
  induction l as [|x l IH]; intros H; cbn [filter]; [reflexivity|].
  rewrite (H x (or_introl eq_refl)). f_equal. apply IH. intros y Hy. apply H. right. exact Hy.
Qed.

Lemma expand_plain fs : Forall plain fs -> expand fs = number (expand_from 0 fs).
Proof.
  intros Hp. unfold expand. apply flat_map_singleton.
  destruct (expand_from_plain fs 0 Hp) as (A & _ & C).
  apply Forall_forall. intros e' Hin. apply In_nth_error in Hin. destruct Hin as (i & Hi).
  assert (Hi' : i < List.length (number (expand_from 0 fs))) by (apply nth_error_Some; rewrite Hi; discriminate).
  rewrite number_length in Hi'.
  destruct (nth_error (expand_from 0 fs) i) as [e|] eqn:He; [|apply nth_error_None in He; lia].
  rewrite (number_nth _ _ _ He) in Hi. inversion Hi; subst e'.
  rewrite Forall_forall in A, C.
  destruct (relabel_plain (expand_from 0 fs) i e (A _ (nth_error_In _ _ He))) as (_ & _ & _ & _ & Hs & _).
  apply generic_one_plain. rewrite Hs.
  destruct (C _ (nth_error_In _ _ He)) as (f & Hf & _ & _). rewrite Nat.sub_0_r in Hf. exists f. split; [exact Hf|].
  rewrite Forall_forall in Hp. apply (Hp f (nth_error_In _ _ Hf)).
Qed.

(* every callable signature gets exactly one C entry point and one Fortran specific: sum over functions of (defaults + 1) *)
Theorem plain_count : forall prefix scope fs, Forall plain fs ->
  List.length (c_names prefix scope fs) = fold_right (fun f n => S (f_ndef f) + n) 0 fs /\
  List.length (f_names scope fs) = fold_right (fun f n => S (f_ndef f) + n) 0 fs.
Proof.
  intros prefix scope fs Hp. unfold c_names, f_names. rewrite expand_plain by exact Hp.
  destruct (expand_from_plain fs 0 Hp) as (A & B & _).
  assert (Hall : forall (flag : emitted -> bool), (forall l i e, plain_emitted e -> flag (relabel l i e) = true) ->
                 filter flag (number (expand_from 0 fs)) = number (expand_from 0 fs)).
  { intros flag Hflag. apply filter_all. intros e' Hin.
    apply In_nth_error in Hin. destruct Hin as (i & Hi).
    assert (Hi' : i < List.length (expand_from 0 fs)) by (rewrite <- number_length; apply nth_error_Some; rewrite Hi; discriminate).
    destruct (nth_error (expand_from 0 fs) i) as [e|] eqn:He; [|apply nth_error_None in He; lia].
    rewrite (number_nth _ _ _ He) in Hi. inversion Hi. apply Hflag.
    rewrite Forall_forall in A. apply A. eapply nth_error_In; exact He. }
  rewrite !map_length.
  rewrite (Hall e_c) by (intros l i e He; apply (relabel_plain l i e He)).
  rewrite (Hall e_f) by (intros l i e He; apply (relabel_plain l i e He)).
  rewrite number_length. auto.
Qed.

Lemma NoDup_by_nth {A} (l : list A) : (forall i j a, nth_error l i = Some a -> nth_error l j = Some a -> i = j) -> NoDup l.
Proof.
  intros H. apply NoDup_nth_error. intros i j Hi E.
  destruct (nth_error l i) as [a|] eqn:Ha; [|apply nth_error_None in Ha; lia].
  symmetry in E. eapply H; eauto.
Qed.

Lemma names_of_plain (mk : emitted -> ustr) (pre : ustr) fs :
  (forall e, e_ts e = [] -> mk e = pre ++ un_camel (e_name e) ++ e_fs e) ->
  Forall plain fs -> names_separable fs -> NoDup (map mk (number (expand_from 0 fs))).
Proof.
  intros Hmk Hp Hsep.
  destruct (expand_from_plain fs 0 Hp) as (A & _ & C).
  set (L := expand_from 0 fs) in *.
  assert (Hn : Forall (fun e => exists f, In f fs /\ e_name e = f_name f) L).
  { eapply Forall_impl; [|exact C]. intros e (f & Hf & _ & Hnm). exists f. split; [eapply nth_error_In; exact Hf | exact Hnm]. }
  apply NoDup_by_nth. intros i j a Hi Hj.
  rewrite nth_error_map in Hi, Hj.
  destruct (nth_error (number L) i) as [ei'|] eqn:Ei; [|discriminate].
  destruct (nth_error (number L) j) as [ej'|] eqn:Ej; [|discriminate].
  cbn in Hi, Hj. inversion Hi as [Hi']. inversion Hj as [Hj']. clear Hi Hj.
  assert (Li : i < List.length L) by (rewrite <- number_length; apply nth_error_Some; rewrite Ei; discriminate).
  assert (Lj : j < List.length L) by (rewrite <- number_length; apply nth_error_Some; rewrite Ej; discriminate).
  destruct (nth_error L i) as [ei|] eqn:Ni; [|apply nth_error_None in Ni; lia].
  destruct (nth_error L j) as [ej|] eqn:Nj; [|apply nth_error_None in Nj; lia].
  rewrite (number_nth _ _ _ Ni) in Ei. rewrite (number_nth _ _ _ Nj) in Ej. inversion Ei; inversion Ej; subst ei' ej'.
  rewrite Forall_forall in A.
  destruct (relabel_plain L i ei (A _ (nth_error_In _ _ Ni))) as (Nmi & Tsi & _).
  destruct (relabel_plain L j ej (A _ (nth_error_In _ _ Nj))) as (Nmj & Tsj & _).
  rewrite (Hmk _ Tsi), Nmi in Hi'. rewrite (Hmk _ Tsj), Nmj in Hj'.
  eapply (numbered_plain_injective fs L Hsep); [apply Forall_forall; exact A | exact Hn | exact Ni | exact Nj |].
  eapply app_inv_head. rewrite Hi', Hj'. reflexivity.
Qed.

(* no two emitted C symbols, and no two Fortran specific names, of a scope coincide *)
Theorem plain_names_distinct : forall prefix scope fscope fs, Forall plain fs -> names_separable fs ->
  NoDup (c_names prefix scope fs) /\ NoDup (f_names fscope fs).
Proof.
  intros prefix scope fscope fs Hp Hsep. unfold c_names, f_names. rewrite expand_plain by exact Hp.
  destruct (expand_from_plain fs 0 Hp) as (A & _ & _).
  assert (Hall : forall (flag : emitted -> bool), (forall l i e, plain_emitted e -> flag (relabel l i e) = true) ->
                 filter flag (number (expand_from 0 fs)) = number (expand_from 0 fs)).
  { intros flag Hflag. apply filter_all. intros e' Hin.
    apply In_nth_error in Hin. destruct Hin as (i & Hi).
    assert (Hi' : i < List.length (expand_from 0 fs)) by (rewrite <- number_length; apply nth_error_Some; rewrite Hi; discriminate).
    destruct (nth_error (expand_from 0 fs) i) as [e|] eqn:He; [|apply nth_error_None in He; lia].
    rewrite (number_nth _ _ _ He) in Hi. inversion Hi. apply Hflag.
    rewrite Forall_forall in A. apply A. eapply nth_error_In; exact He. }
  rewrite (Hall e_c) by (intros l i e He; apply (relabel_plain l i e He)).
  rewrite (Hall e_f) by (intros l i e He; apply (relabel_plain l i e He)).
  split.
  - apply (names_of_plain (nm_c_name prefix scope) (prefix ++ scope)); auto.
    intros e Hts. unfold nm_c_name. rewrite Hts, app_nil_r, <- !app_assoc. reflexivity.
  - apply (names_of_plain (nm_f_impl fscope) fscope); auto.
    intros e Hts. unfold nm_f_impl. rewrite Hts, app_nil_r. reflexivity.
Qed.

(* every specific procedure carries the generic name of its C++ name *)
Theorem generic_name_is_cxx_name : forall fs e, In e (expand fs) -> nm_f_generic e = un_camel (e_name e).
Proof. intros; reflexivity. Qed.

(* ---- the full statement (explicit suffixes allowed, any distinct underscore names) is false of the model ---- *)
Definition mkfn (n : string) (ndef : nat) (sfx : option string) : fn :=
  {| f_name := cp n; f_ndef := ndef; f_suffix := option_map cp sfx; f_das := []; f_tmpl := []; f_generic := [] |}.

(* explicit function_suffix together with a default argument: both signatures get the same name *)
Theorem explicit_suffix_with_default_refuted :
  c_names (cp "NAM_"%string) [] [mkfn "sfx"%string 1 (Some "_x"%string)] = [cp "NAM_sfx_x"%string; cp "NAM_sfx_x"%string].
Proof. vm_compute. reflexivity. Qed.

(* distinct underscore names, no explicit suffix at all: an overload number collides with another function's name *)
Theorem overload_number_collides_refuted :
  c_names (cp "NAM_"%string) [] [mkfn "foo"%string 0 None; mkfn "foo"%string 0 None; mkfn "foo_1"%string 0 None] = [cp "NAM_foo_0"%string; cp "NAM_foo_1"%string; cp "NAM_foo_1"%string].
Proof. vm_compute. reflexivity. Qed.

(* non-vacuity of the positive theorem *)
Example plain_example :
  c_names (cp "NAM_"%string) (cp "Cls_"%string) [mkfn "foo"%string 2 None; mkfn "foo"%string 0 None; mkfn "barBaz"%string 1 None; mkfn "getHTTPCode"%string 0 None]
  = map cp ["NAM_Cls_foo_0"; "NAM_Cls_foo_1"; "NAM_Cls_foo_2"; "NAM_Cls_foo_3"; "NAM_Cls_bar_baz_0"; "NAM_Cls_bar_baz_1"; "NAM_Cls_get_http_code"]%string.
Proof. vm_compute. reflexivity. Qed.
