(* Proof/Release.v — what a checked library guarantees about every handle its wrappers hand out. *)
From Coq Require Import List String Bool Arith.
From Shroud Require Import Model.Release.
Import ListNotations.
Open Scope string_scope.

Lemma find_case_in n cs c : find_case n cs = Some c -> In c cs /\ rc_code c = n.
Proof.
  induction cs as [|d r IH]; cbn [find_case]; [discriminate|].
  destruct (Nat.eqb (rc_code d) n) eqn:E.
  - intros H. injection H as <-. split; [left; reflexivity | apply Nat.eqb_eq; exact E].
  - intros H. destruct (IH H) as [Hin Hc]. split; [right; exact Hin | exact Hc].
Qed.

(* a handle that a checked wrapper marks as caller owned is released by a case of the library's switch that (unless it is a
   user-supplied pattern) casts the pointer to its own type; memory the wrapper obtained with new is released with delete *)
Theorem checked_site_releases_its_own_type : forall l s,
  lib_ok l = true -> In s (rl_sites l) -> rs_code s <> 0 ->
  exists c, In c (rl_cases l) /\ rc_code c = rs_code s /\
            (rc_action c = "other" \/
             (rc_type c = rs_type s /\ (rc_action c = "delete" \/ rc_action c = "free") /\
              (rs_how s = "new" -> rc_action c = "delete"))).
Proof.
  intros l s Hok Hin Hn. unfold lib_ok in Hok. apply andb_true_iff in Hok. destruct Hok as [_ Hs].
  rewrite forallb_forall in Hs. specialize (Hs s Hin). unfold site_ok in Hs.
  destruct (Nat.eqb (rs_code s) 0) eqn:E0; [apply Nat.eqb_eq in E0; contradiction|].
  destruct (find_case (rs_code s) (rl_cases l)) as [c|] eqn:Ef; [|discriminate].
  destruct (find_case_in _ _ _ Ef) as [Hc1 Hc2]. exists c. split; [exact Hc1|]. split; [exact Hc2|].
  destruct (String.eqb (rc_action c) "other") eqn:Eo; [left; apply String.eqb_eq; exact Eo|]. right.
  repeat (apply andb_true_iff in Hs; destruct Hs as [Hs ?]).
  split; [apply String.eqb_eq; exact Hs|]. split.
  - apply orb_true_iff in H2. destruct H2 as [H2|H2]; [left | right]; apply String.eqb_eq; exact H2.
  - intros Hnew. rewrite Hnew in H1. cbn in H1. apply String.eqb_eq. exact H1.
Qed.

(* memory a checked wrapper obtained with new is never handed out as "nothing to release" *)
Theorem checked_new_is_released : forall l s,
  lib_ok l = true -> In s (rl_sites l) -> rs_how s = "new" -> rs_code s <> 0.
Proof.
  intros l s Hok Hin Hnew E. unfold lib_ok in Hok. apply andb_true_iff in Hok. destruct Hok as [_ Hs].
  rewrite forallb_forall in Hs. specialize (Hs s Hin). unfold site_ok in Hs. rewrite E, Hnew in Hs. discriminate.
Qed.

(* distinct codes: the case found for a code is the only one *)
Lemma codes_distinct_unique cs : codes_distinct cs = true -> forall c d, In c cs -> In d cs -> rc_code c = rc_code d -> c = d.
Proof.
  induction cs as [|x r IH]; intros H c d Hc Hd E; [destruct Hc|].
  cbn [codes_distinct] in H. apply andb_true_iff in H. destruct H as [Hx Hr]. apply negb_true_iff in Hx.
  assert (Hnot : forall y, In y r -> rc_code y <> rc_code x).
  { intros y Hy Ey. assert (T : existsb (fun d0 => Nat.eqb (rc_code d0) (rc_code x)) r = true).
    { apply existsb_exists. exists y. split; [exact Hy | apply Nat.eqb_eq; exact Ey]. }
    rewrite T in Hx. discriminate. }
  destruct Hc as [<-|Hc], Hd as [<-|Hd].
  - reflexivity.
  - exfalso. apply (Hnot d Hd). symmetry. exact E.
  - exfalso. apply (Hnot c Hc). exact E.
  - apply IH; assumption.
Qed.

Example release_example :
  let l := {| rl_name := "ex"; rl_cases := [{| rc_code := 0; rc_type := ""; rc_action := "none" |};
                                             {| rc_code := 1; rc_type := "ns::Item"; rc_action := "delete" |};
                                             {| rc_code := 2; rc_type := "char"; rc_action := "free" |}];
              rl_sites := [{| rs_where := "ctor"; rs_code := 1; rs_type := "ns::Item"; rs_how := "new" |};
                           {| rs_where := "dup"; rs_code := 2; rs_type := "char"; rs_how := "call" |};
                           {| rs_where := "borrow"; rs_code := 0; rs_type := "ns::Item"; rs_how := "call" |}] |} in
  lib_ok l = true /\
  lib_ok {| rl_name := "bad"; rl_cases := rl_cases l; rl_sites := [{| rs_where := "dup"; rs_code := 1; rs_type := "char"; rs_how := "call" |}] |} = false.
Proof. split; reflexivity. Qed.
