From Coq Require Import List NArith ZArith Bool Arith Lia.
From Shroud Require Import Base.Ustr Model.StrHelpers.
Import ListNotations.

Lemma firstn_repeat {A} (x : A) : forall n m, firstn n (repeat x m) = repeat x (Nat.min n m).
Proof. induction n; intros [|m]; simpl; try reflexivity. rewrite IHn. reflexivity. Qed.

Lemma In_firstn_aux {A} (x : A) : forall n l, In x (firstn n l) -> In x l.
Proof. induction n; intros [|a l] H; simpl in *; try contradiction. destruct H; [left; assumption | right; auto]. Qed.

(* ---------- drop_blanks / len_trim ---------- *)
Lemma drop_blanks_split l : exists k, l = repeat BL k ++ drop_blanks l /\
  (match drop_blanks l with c :: _ => c <> BL | [] => True end).
Proof.
  induction l as [|c r [k [H1 H2]]]; simpl.
  - exists 0. split; [reflexivity | exact I].
  - destruct (N.eqb c BL) eqn:E.
    + apply N.eqb_eq in E. subst c. exists (S k). split; [simpl; congruence | exact H2].
    + exists 0. split; [reflexivity|]. apply N.eqb_neq. exact E.
Qed.

Lemma drop_blanks_length l : length (drop_blanks l) <= length l.
Proof. induction l as [|c r IH]; simpl; [lia|]. destruct (N.eqb c BL); simpl; lia. Qed.

Lemma rev_repeat {A} (x : A) k : rev (repeat x k) = repeat x k.
Proof.
  induction k; simpl; [reflexivity|]. rewrite IHk.
  clear. induction k; simpl; [reflexivity|]. rewrite <- IHk. reflexivity.
Qed.

(* text = rtrim text ++ blanks, and rtrim text does not end in a blank *)
Lemma rtrim_blank_spec t : exists k,
  t = rtrim_blank t ++ repeat BL k /\
  (match rev (rtrim_blank t) with c :: _ => c <> BL | [] => True end).
Proof.
  unfold rtrim_blank, len_trim. simpl fst. rewrite firstn_all.
  destruct (drop_blanks_split (rev t)) as [k [H1 H2]]. exists k.
  assert (Ht : t = rev (drop_blanks (rev t)) ++ repeat BL k).
  { rewrite <- (rev_involutive t) at 1. rewrite H1 at 1. rewrite rev_app_distr, rev_repeat. reflexivity. }
  assert (Hf : firstn (length (drop_blanks (rev t))) t = rev (drop_blanks (rev t))).
  { rewrite Ht at 2. rewrite <- (rev_length (drop_blanks (rev t))).
    rewrite firstn_app, firstn_all, Nat.sub_diag. simpl. apply app_nil_r. }
  rewrite Hf. split; [exact Ht|]. rewrite rev_involutive. exact H2.
Qed.

Lemma len_trim_le src nsrc : fst (len_trim src nsrc) <= nsrc.
Proof.
  unfold len_trim. simpl. etransitivity; [apply drop_blanks_length|].
  rewrite rev_length. apply firstn_le_length.
Qed.

Lemma len_trim_ok src nsrc : nsrc <= length src -> snd (len_trim src nsrc) = true.
Proof. intros H. unfold len_trim. simpl. apply Nat.leb_le. exact H. Qed.

(* ---------- cstrlen ---------- *)
Lemma cstrlen_spec s k : cstrlen s = Some k ->
  k < length s /\ nth k s 1%N = NUL /\ forallb (fun c => negb (N.eqb c NUL)) (firstn k s) = true.
Proof.
  revert k. induction s as [|c r IH]; intros k H; simpl in H; [discriminate|].
  destruct (N.eqb c NUL) eqn:E.
  - injection H as <-. apply N.eqb_eq in E. simpl. repeat split; [lia | exact E].
  - destruct (cstrlen r) as [k'|]; [|discriminate]. injection H as <-.
    destruct (IH k' eq_refl) as [H1 [H2 H3]]. simpl. rewrite E. simpl. repeat split; [lia | exact H2 | exact H3].
Qed.

Lemma cstrlen_app_nul t rest : forallb (fun c => negb (N.eqb c NUL)) t = true ->
  cstrlen (t ++ NUL :: rest) = Some (length t).
Proof.
  induction t as [|c r IH]; intros H; simpl; [reflexivity|].
  simpl in H. apply andb_true_iff in H. destruct H as [H1 H2]. apply negb_true_iff in H1.
  rewrite H1, IH by exact H2. reflexivity.
Qed.

(* ---------- ShroudStrCopy ---------- *)
Lemma str_copy_length dest ndest src nsrc out ok :
  str_copy dest ndest src nsrc = (out, ok) -> ok = true -> length out = length dest.
Proof.
  unfold str_copy. destruct src as [s|].
  - destruct (if (nsrc <? 0)%Z then cstrlen s else Some (Z.to_nat nsrc)) as [n|]; intros H Hok; injection H as <- <-; [|discriminate].
    apply andb_true_iff in Hok. destruct Hok as [H1 H2]. apply Nat.leb_le in H1. apply Nat.leb_le in H2.
    rewrite !app_length, firstn_length, repeat_length, skipn_length. lia.
  - intros H Hok. injection H as <- <-. apply Nat.leb_le in Hok.
    rewrite app_length, repeat_length, skipn_length. lia.
Qed.

(* explicit length: truncate or pad, nothing beyond ndest is touched *)
Lemma str_copy_explicit dest ndest s n : n <= length s -> ndest <= length dest ->
  str_copy dest ndest (Some s) (Z.of_nat n) =
  (firstn ndest (firstn n s ++ repeat BL ndest) ++ skipn ndest dest, true).
Proof.
  intros Hn Hd. unfold str_copy.
  assert (E : (Z.of_nat n <? 0)%Z = false) by (apply Z.ltb_ge; lia). rewrite E, Nat2Z.id.
  f_equal.
  - rewrite app_assoc. f_equal.
    destruct (Nat.le_ge_cases n ndest) as [H|H].
    + rewrite Nat.min_l by exact H. rewrite firstn_app, firstn_length, Nat.min_l by exact Hn.
      rewrite (firstn_all2 (firstn n s)) by (rewrite firstn_length; lia).
      f_equal. rewrite firstn_repeat. f_equal. lia.
    + rewrite Nat.min_r by exact H. replace (ndest - ndest) with 0 by lia. simpl. rewrite app_nil_r.
      rewrite firstn_app, firstn_length, Nat.min_l by exact Hn.
      replace (ndest - n) with 0 by lia. simpl. rewrite app_nil_r. rewrite firstn_firstn. f_equal. lia.
  - apply andb_true_iff. split; apply Nat.leb_le; [|exact Hd].
    pose proof (Nat.le_min_l n ndest). lia.
Qed.

(* nsrc = -1: the C string up to its NUL *)
Lemma str_copy_strlen dest ndest s k : cstrlen s = Some k -> ndest <= length dest ->
  str_copy dest ndest (Some s) (-1) =
  (firstn ndest (firstn k s ++ repeat BL ndest) ++ skipn ndest dest, true).
Proof.
  intros Hk Hd. destruct (cstrlen_spec _ _ Hk) as [Hlt _].
  rewrite <- (str_copy_explicit dest ndest s k) by lia.
  unfold str_copy. simpl Z.ltb. rewrite Hk.
  assert (E : (Z.of_nat k <? 0)%Z = false) by (apply Z.ltb_ge; lia). rewrite E, Nat2Z.id. reflexivity.
Qed.

Lemma str_copy_null dest ndest : ndest <= length dest ->
  str_copy dest ndest None 0 = (repeat BL ndest ++ skipn ndest dest, true).
Proof. intros H. unfold str_copy. f_equal. apply Nat.leb_le. exact H. Qed.

Lemma firstn_repeat_le {A} (x : A) n m : n <= m -> firstn n (repeat x m) = repeat x n.
Proof. intros H. rewrite firstn_repeat. f_equal. lia. Qed.

(* the Fortran variable (first ndest bytes) holds no NUL when the source text has none *)
Lemma no_nul_firstn_pad t ndest : forallb (fun c => negb (N.eqb c NUL)) t = true ->
  forallb (fun c => negb (N.eqb c NUL)) (firstn ndest (t ++ repeat BL ndest)) = true.
Proof.
  intros H. rewrite forallb_forall. intros x Hx. apply In_firstn_aux in Hx.
  apply in_app_or in Hx. destruct Hx as [Hx|Hx].
  - rewrite forallb_forall in H. apply H. exact Hx.
  - apply repeat_spec in Hx. subst x. reflexivity.
Qed.

(* ---------- ShroudStrBlankFill ---------- *)
Lemma blank_fill_spec dest ndest nm : cstrlen dest = Some nm -> nm < ndest -> ndest <= length dest ->
  blank_fill dest ndest = (firstn nm dest ++ repeat BL (ndest - nm) ++ skipn ndest dest, true).
Proof.
  intros Hk Hlt Hd. unfold blank_fill. rewrite Hk.
  destruct (Nat.ltb_spec nm ndest); [|lia]. f_equal. apply Nat.leb_le. exact Hd.
Qed.

Lemma blank_fill_exact_fit_oob dest ndest : cstrlen (firstn ndest dest) = None -> ndest = length dest ->
  snd (blank_fill dest ndest) = false.
Proof.
  intros H ->. rewrite firstn_all in H. unfold blank_fill. rewrite H. reflexivity.
Qed.

(* ---------- ShroudStrAlloc: Fortran text -> NUL terminated C string ---------- *)
Lemma str_alloc_auto text : 
  exists pad, str_alloc text (length text) (-1) = (rtrim_blank text ++ [NUL] ++ pad, true).
Proof.
  unfold str_alloc. simpl Z.eqb. unfold rtrim_blank.
  destruct (len_trim text (length text)) as [nt ok0] eqn:E.
  assert (Hnt : nt <= length text) by (pose proof (len_trim_le text (length text)); rewrite E in *; exact H).
  assert (Hok : ok0 = true) by (pose proof (len_trim_ok text (length text) (le_n _)); rewrite E in *; exact H).
  subst ok0. simpl fst. eexists. f_equal.
  apply andb_true_iff. split; [apply andb_true_iff; split; [reflexivity|]|]; apply Nat.leb_le; exact Hnt.
Qed.

(* the buffer handed to C always has room for the whole Fortran variable and the NUL: an intent(inout) result as long as the
   variable allows fits into it *)
Lemma str_alloc_room src nsrc ntrim : snd (str_alloc src nsrc ntrim) = true ->
  length (fst (str_alloc src nsrc ntrim)) = S nsrc.
Proof.
  unfold str_alloc.
  destruct (if (ntrim =? -1)%Z then len_trim src nsrc else (Z.to_nat ntrim, (0 <=? ntrim)%Z)) as [nt ok0].
  cbn [fst snd]. intros H.
  apply andb_true_iff in H. destruct H as [H H2]. apply andb_true_iff in H. destruct H as [_ H1].
  apply Nat.leb_le in H1. apply Nat.leb_le in H2.
  rewrite !app_length, firstn_length, repeat_length. cbn [length]. lia.
Qed.

Lemma str_alloc_trim text : let nt := fst (len_trim text (length text)) in
  str_alloc text nt (Z.of_nat nt) = (rtrim_blank text ++ [NUL], true).
Proof.
  intros nt. unfold str_alloc.
  assert (Hnt : nt <= length text) by apply len_trim_le.
  destruct (Z.of_nat nt =? -1)%Z eqn:E; [apply Z.eqb_eq in E; lia|].
  rewrite Nat2Z.id, Nat.sub_diag. simpl repeat. f_equal.
  apply andb_true_iff. split; [apply andb_true_iff; split|]; try (apply Nat.leb_le; lia).
  apply Z.leb_le. lia.
Qed.

Lemma str_alloc_cstr text : forallb (fun c => negb (N.eqb c NUL)) text = true ->
  forall pad, cstr (rtrim_blank text ++ [NUL] ++ pad) = rtrim_blank text.
Proof.
  intros H pad. unfold cstr.
  assert (Hr : forallb (fun c => negb (N.eqb c NUL)) (rtrim_blank text) = true).
  { unfold rtrim_blank. rewrite forallb_forall in *. intros x Hx. apply H. eapply In_firstn_aux; eassumption. }
  simpl app. rewrite cstrlen_app_nul by exact Hr.
  rewrite firstn_app, firstn_all, Nat.sub_diag. simpl. apply app_nil_r.
Qed.

Lemma str_alloc_len_trim text : let nt := fst (len_trim text (length text)) in
  exists pad, str_alloc text (length text) (Z.of_nat nt) = (rtrim_blank text ++ [NUL] ++ pad, true).
Proof.
  intros nt. unfold str_alloc.
  assert (Hnt : nt <= length text) by apply len_trim_le.
  destruct (Z.of_nat nt =? -1)%Z eqn:E; [apply Z.eqb_eq in E; lia|].
  rewrite Nat2Z.id. eexists. f_equal.
  apply andb_true_iff. split; [apply andb_true_iff; split|]; try (apply Nat.leb_le; lia).
  apply Z.leb_le. lia.
Qed.

(* ---------- abstract argument classes used by the statement tables ---------- *)
Inductive lenarg := ALen | ATrim | AAuto.      (* {c_var_len} / elem_len ; {c_var_trim} ; -1 *)

Definition alloc_form_ok (nsrc ntrim : lenarg) : bool :=
  match nsrc, ntrim with
  | ALen, ATrim | ALen, AAuto | ATrim, ATrim => true
  | _, _ => false
  end.

Definition den_nsrc (text : list N) (a : lenarg) : nat :=
  match a with ALen => length text | _ => fst (len_trim text (length text)) end.
Definition den_ntrim (text : list N) (a : lenarg) : Z :=
  match a with AAuto => (-1)%Z | _ => Z.of_nat (fst (len_trim text (length text))) end.

(* every admitted ShroudStrAlloc call form hands C the text without trailing blanks, NUL terminated,
   with no access outside the buffers *)
Lemma alloc_form_sound text nsrc ntrim : alloc_form_ok nsrc ntrim = true ->
  exists pad, str_alloc text (den_nsrc text nsrc) (den_ntrim text ntrim) = (rtrim_blank text ++ [NUL] ++ pad, true).
Proof.
  destruct nsrc, ntrim; try discriminate; intros _; simpl den_nsrc; simpl den_ntrim.
  - apply str_alloc_len_trim.
  - apply str_alloc_auto.
  - exists []. rewrite str_alloc_trim. reflexivity.
Qed.
