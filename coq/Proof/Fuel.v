(* Proof/Fuel.v — the fuel given to the expression and declaration parsers is always enough: no input makes the model
   run out of fuel (termination of the recursive descent), and every parser returns a suffix no longer than its input. *)
From Coq Require Import List NArith ZArith Bool Arith String Lia.
From Shroud Require Import Base.Ustr Model.Splicer Model.Lexer Model.Expr Model.Decl.
Import ListNotations.

(* ---- bounds on what is left ---- *)
Definition bnd {A} (n : nat) (r : result (A * list tok)) : Prop :=
  match r with Ok (_, ts') => List.length ts' <= n | _ => True end.
Definition nf {A} (r : result A) : Prop := r <> OutOfFuel.

Lemma bnd_ok {A} n (x : A) ts : List.length ts <= n -> bnd n (Ok (x, ts)). Proof. intros H; exact H. Qed.
Lemma bnd_rej {A} n m : @bnd A n (Reject m). Proof. exact I. Qed.
Lemma bnd_perr {A} n : @bnd A n perr. Proof. exact I. Qed.
Lemma bnd_oof {A} n : @bnd A n OutOfFuel. Proof. exact I. Qed.
Lemma bnd_mono {A} m n (r : result (A * list tok)) : bnd m r -> m <= n -> bnd n r.
Proof. destruct r as [[x ts]| | |]; cbn; intros; auto. lia. Qed.
Lemma bnd_bind {A B} m n (r : result (A * list tok)) (f : A * list tok -> result (B * list tok)) :
  bnd m r -> (forall x ts1, List.length ts1 <= m -> bnd n (f (x, ts1))) -> bnd n (bind r f).
Proof. destruct r as [[x ts]| | |]; cbn; intros H Hf; auto. Qed.

Lemma nf_ok {A} (a : A) : nf (Ok a). Proof. discriminate. Qed.
Lemma nf_rej {A} m : nf (@Reject A m). Proof. discriminate. Qed.
Lemma nf_perr {A} : nf (@perr A). Proof. discriminate. Qed.
Lemma nf_bind {A B} (r : result A) (f : A -> result B) : nf r -> (forall a, r = Ok a -> nf (f a)) -> nf (bind r f).
Proof. destruct r; cbn; intros H Hf; try discriminate; [apply Hf; reflexivity | contradiction]. Qed.

Lemma mustbe_bnd k ts : bnd (List.length ts - 1) (mustbe k ts) \/ (ts = [] /\ k = EOF).
Proof.
  unfold mustbe. destruct ts as [|t r].
  - destruct (kind_eqb EOF k) eqn:E.
    + right. split; [reflexivity|]. destruct k; try discriminate; reflexivity.
    + left. exact I.
  - left. destruct (kind_eqb (tk t) k); [cbn; lia | exact I].
Qed.
Lemma mustbe_bnd_le k ts : bnd (List.length ts) (mustbe k ts).
Proof.
  unfold mustbe. destruct ts as [|t r].
  - destruct (kind_eqb EOF k); [cbn; lia | exact I].
  - destruct (kind_eqb (tk t) k); [cbn; lia | exact I].
Qed.
Lemma mustbe_bnd_lt k ts : k <> EOF -> bnd (List.length ts - 1) (mustbe k ts).
Proof. intros Hk. destruct (mustbe_bnd k ts) as [H|[_ H]]; [exact H | contradiction]. Qed.
Lemma nf_mustbe k ts : nf (mustbe k ts).
Proof. unfold mustbe. destruct ts; destruct (kind_eqb _ _); discriminate. Qed.
Lemma tl_len {A} (l : list A) : List.length (tl l) <= List.length l - 1.
Proof. destruct l; cbn; lia. Qed.

(* ---- expressions: what is left ---- *)
Lemma bnd_expr : forall fuel,
  (forall mp ts, bnd (List.length ts - 1) (p_expr fuel mp ts)) /\
  (forall mp lhs ts, bnd (List.length ts) (p_loop fuel mp lhs ts)) /\
  (forall ts, bnd (List.length ts - 1) (p_primary fuel ts)) /\
  (forall ts acc, bnd (List.length ts - 1) (p_args fuel ts acc)).
Proof.
  induction fuel as [|f IH]; [repeat split; intros; exact I|].
  destruct IH as (IH1 & IH2 & IH3 & IH4).
  repeat split.
  - intros mp ts. cbn [p_expr]. eapply bnd_bind; [apply IH3|]. intros x ts1 H1. cbn [fst snd].
    eapply bnd_mono; [apply IH2 | exact H1].
  - intros mp lhs ts. cbn [p_loop]. destruct ts as [|t r]; [apply bnd_ok; lia|].
    destruct (opinfo (tv t)) as [prec|]; [|apply bnd_ok; lia].
    destruct (Nat.ltb prec mp); [apply bnd_ok; lia|].
    eapply bnd_bind; [apply IH1|]. intros x ts1 H1. cbn [fst snd].
    eapply bnd_mono; [apply IH2 | cbn [List.length]; lia].
  - intros ts. cbn [p_primary]. destruct ts as [|t r]; [exact I|]. cbn [List.length].
    destruct (tk t); try exact I.
    + (* REAL *) apply bnd_ok; lia.
    + apply bnd_ok; lia.
    + (* LPAREN *) eapply bnd_bind; [apply IH1|]. intros x ts1 H1. cbn [fst snd].
      eapply bnd_bind; [apply mustbe_bnd_le|]. intros y ts2 H2. apply bnd_ok. cbn [snd]. lia.
    + (* PLUS *) eapply bnd_bind; [apply IH3|]. intros x ts1 H1. apply bnd_ok. cbn [snd]. lia.
    + eapply bnd_bind; [apply IH3|]. intros x ts1 H1. apply bnd_ok. cbn [snd]. lia.
    + (* ID *) destruct (peek LPAREN r); [|apply bnd_ok; lia].
      eapply bnd_bind; [apply IH4|]. intros x ts1 H1. apply bnd_ok. cbn [snd]. pose proof (tl_len r). lia.
  - intros ts acc. cbn [p_args]. destruct (peek RPAREN ts) eqn:Ep.
    + eapply bnd_bind; [apply mustbe_bnd_lt; discriminate|]. intros y ts2 H2. apply bnd_ok. cbn [snd]. lia.
    + eapply bnd_bind; [apply IH1|]. intros x ts1 H1. cbn [fst snd].
      destruct (peek COMMA ts1).
      * eapply bnd_mono; [apply IH4|]. pose proof (tl_len ts1). lia.
      * eapply bnd_bind; [apply mustbe_bnd_le|]. intros y ts2 H2. apply bnd_ok. cbn [snd]. lia.
Qed.

Lemma bnd_parse_expression ts : bnd (List.length ts - 1) (parse_expression ts).
Proof. apply bnd_expr. Qed.

Lemma expr_nil f mp x ts' : p_expr f mp [] <> Ok (x, ts').
Proof. destruct f as [|f]; cbn [p_expr]; [discriminate|]. destruct f; cbn; discriminate. Qed.

(* ---- expressions: the fuel is enough ---- *)
Lemma nf_expr : forall fuel,
  (forall mp ts, 4 * List.length ts + 2 <= fuel -> nf (p_expr fuel mp ts)) /\
  (forall mp lhs ts, 4 * List.length ts + 1 <= fuel -> nf (p_loop fuel mp lhs ts)) /\
  (forall ts, 4 * List.length ts + 1 <= fuel -> nf (p_primary fuel ts)) /\
  (forall ts acc, 4 * List.length ts + 3 <= fuel -> nf (p_args fuel ts acc)).
Proof.
  induction fuel as [|f IH]; [repeat split; intros; lia|].
  destruct IH as (IH1 & IH2 & IH3 & IH4).
  destruct (bnd_expr f) as (B1 & B2 & B3 & B4).
  repeat split.
  - intros mp ts Hf. cbn [p_expr]. apply nf_bind; [apply IH3; lia|]. intros [x ts1] E. cbn [fst snd].
    pose proof (B3 ts) as Hb. rewrite E in Hb. cbv beta iota delta [bnd] in Hb. apply IH2. lia.
  - intros mp lhs ts Hf. cbn [p_loop]. destruct ts as [|t r]; [apply nf_ok|]. cbn [List.length] in Hf.
    destruct (opinfo (tv t)) as [prec|]; [|apply nf_ok]. destruct (Nat.ltb prec mp); [apply nf_ok|].
    apply nf_bind; [apply IH1; lia|]. intros [x ts1] E. cbn [fst snd].
    pose proof (B1 (S prec) r) as Hb. rewrite E in Hb. cbv beta iota delta [bnd] in Hb. apply IH2. lia.
  - intros ts Hf. cbn [p_primary]. destruct ts as [|t r]; [apply nf_perr|]. cbn [List.length] in Hf.
    destruct (tk t); try apply nf_perr; try apply nf_ok.
    + apply nf_bind; [apply IH1; lia|]. intros [x ts1] E. cbn [fst snd].
      apply nf_bind; [apply nf_mustbe|]. intros; apply nf_ok.
    + apply nf_bind; [apply IH3; lia|]. intros; apply nf_ok.
    + apply nf_bind; [apply IH3; lia|]. intros; apply nf_ok.
    + destruct (peek LPAREN r); [|apply nf_ok].
      apply nf_bind; [apply IH4; pose proof (tl_len r); lia|]. intros; apply nf_ok.
  - intros ts acc Hf. cbn [p_args]. destruct (peek RPAREN ts).
    + apply nf_bind; [apply nf_mustbe|]. intros; apply nf_ok.
    + apply nf_bind; [apply IH1; lia|]. intros [x ts1] E. cbn [fst snd].
      pose proof (B1 0 ts) as Hb. rewrite E in Hb. cbv beta iota delta [bnd] in Hb.
      destruct ts as [|t0 r0]; [exfalso; eapply expr_nil; exact E|]. cbn [List.length] in *.
      destruct (peek COMMA ts1).
      * apply IH4. pose proof (tl_len ts1). lia.
      * apply nf_bind; [apply nf_mustbe|]. intros; apply nf_ok.
Qed.

Theorem parse_expression_total ts : parse_expression ts <> OutOfFuel.
Proof. unfold parse_expression, expr_fuel. apply nf_expr. lia. Qed.

(* ---- declarations: what is left ---- *)
Lemma peek_tl k ts : peek k ts = true -> k <> EOF -> List.length (tl ts) < List.length ts.
Proof.
  unfold peek. destruct ts as [|t r]; cbn; intros H Hk; [|lia].
  destruct k; cbn in H; try discriminate. contradiction.
Qed.

Lemma p_pointer_len : forall ts acc, List.length (snd (p_pointer acc ts)) <= List.length ts.
Proof.
  induction ts as [|t r IH]; intros acc; cbn [p_pointer]; [cbn; lia|].
  destruct (tk t); cbn [snd List.length]; try lia.
  - specialize (IH (acc ++ [{| p_ptr := tv t; p_const := false; p_volatile := false |}])). lia.
  - specialize (IH (acc ++ [{| p_ptr := tv t; p_const := false; p_volatile := false |}])). lia.
  - destruct acc; cbn [snd List.length]; [lia|]. specialize (IH (set_last_qual (tv t) (p :: acc))). lia.
Qed.

Lemma initializer_len ts : List.length (snd (initializer ts)) <= List.length ts.
Proof. unfold initializer. destruct ts as [|t r]; [cbn; lia|]. destruct (tk t); cbn; lia. Qed.

Lemma bnd_collect_paren : forall fuel depth acc ts, bnd (List.length ts) (collect_paren fuel depth acc ts).
Proof.
  induction fuel as [|f IH]; intros; cbn [collect_paren]; [exact I|].
  destruct ts as [|t r]; [exact I|]. cbn [List.length].
  destruct (tk t); try (eapply bnd_mono; [apply IH | lia]).
  destruct depth as [|[|d]]; try (apply bnd_ok; lia). eapply bnd_mono; [apply IH | lia].
Qed.

Lemma bnd_p_attribute : forall fuel attrs ts, bnd (List.length ts) (p_attribute fuel attrs ts).
Proof.
  induction fuel as [|f IH]; intros; cbn [p_attribute]; [exact I|].
  destruct (peek PLUS ts); [|apply bnd_ok; lia].
  eapply bnd_bind; [apply mustbe_bnd_le|]. intros nm ts1 H1. cbn [fst snd]. pose proof (tl_len ts) as Ht.
  destruct (peek LPAREN ts1).
  - eapply bnd_bind; [apply bnd_collect_paren|]. intros x ts2 H2. cbn [fst snd].
    eapply bnd_mono; [apply IH|]. pose proof (tl_len ts1). lia.
  - destruct (peek EQUALS ts1).
    + pose proof (initializer_len (tl ts1)) as Hi. destruct (initializer (tl ts1)) as [v ts2]. cbn [snd] in Hi.
      eapply bnd_mono; [apply IH|]. pose proof (tl_len ts1). lia.
    + eapply bnd_mono; [apply IH|]. lia.
Qed.

Lemma bnd_p_declarator : forall fuel ts, bnd (List.length ts) (p_declarator fuel ts).
Proof.
  induction fuel as [|f IH]; intros; cbn [p_declarator]; [exact I|].
  pose proof (p_pointer_len ts []) as Hp. destruct (p_pointer [] ts) as [ptrs ts1]. cbn [snd] in Hp.
  destruct ts1 as [|t r]; [apply bnd_ok; cbn; lia|]. cbn [List.length] in Hp.
  destruct (tk t); try (apply bnd_ok; cbn [List.length]; lia).
  eapply bnd_bind; [apply IH|]. intros x ts2 H2. cbn [fst snd].
  eapply bnd_bind; [apply mustbe_bnd_le|]. intros y ts3 H3. apply bnd_ok. cbn [snd]. lia.
Qed.

Lemma bnd_p_nested : forall fuel ns names ts, bnd (List.length ts) (p_nested fuel ns names ts).
Proof.
  induction fuel as [|f IH]; intros; cbn [p_nested]; [exact I|].
  destruct (peek NAMESPACE ts); [|apply bnd_ok; lia].
  eapply bnd_bind; [apply mustbe_bnd_le|]. intros nm ts1 H1. cbn [fst snd]. pose proof (tl_len ts).
  destruct (sym_lookup _ _); [|exact I]. eapply bnd_mono; [apply IH | lia].
Qed.

Lemma bnd_get_canonical_bind {B} c s n (f : ustr -> result (B * list tok)) :
  (forall tm, bnd n (f tm)) -> bnd n (bind (get_canonical c s) f).
Proof. intros H. unfold get_canonical. destruct (ss_tm s); cbn [bind]; [apply H|]. destruct (ustr_in _ _); cbn [bind]; [apply H | exact I]. Qed.

Lemma bnd_spec : forall fuel,
  (forall c found s ts, bnd (List.length ts) (p_specifier fuel c found s ts)) /\
  (forall c s ts, bnd (List.length ts) (p_targs fuel c s ts)) /\
  (forall c ts, bnd (List.length ts) (p_decl_spec fuel c ts)).
Proof.
  induction fuel as [|f IH]; [repeat split; intros; exact I|].
  destruct IH as (IH1 & IH2 & IH3).
  repeat split.
  - intros c found s ts. cbn [p_specifier]. destruct ts as [|t r]; [apply bnd_ok; lia|]. cbn [List.length].
    destruct (tk t); try (apply bnd_ok; cbn [List.length]; lia); try (eapply bnd_mono; [apply IH1 | lia]).
    + (* ID *) destruct found; [apply bnd_ok; cbn [List.length]; lia|].
      destruct (sym_lookup (tv t) (scope c)) as [ns|]; [|apply bnd_ok; cbn [List.length]; lia].
      eapply bnd_bind; [apply bnd_p_nested|]. intros [ns2 names] ts1 H1.
      destruct ns2 as [id2 k2 tn2 mem2]. destruct tn2; try exact I;
        (eapply bnd_bind; [apply IH2|]; intros s2 ts2 H2;
         match goal with |- bnd _ (if ?b then _ else _) => destruct b end;
         [apply bnd_ok; lia | eapply bnd_mono; [apply IH1 | lia]]).
    + (* TYPE_QUALIFIER *) destruct (ueqb (tv t) (cp "const")); eapply bnd_mono; try apply IH1; lia.
  - intros c s ts. cbn [p_targs]. destruct (peek LT ts); [|apply bnd_ok; lia]. pose proof (tl_len ts) as Ht.
    destruct (peek GT (tl ts)); [apply bnd_ok; pose proof (tl_len (tl ts)); lia|].
    eapply bnd_bind; [apply IH3|]. intros s1 ts2 H2.
    apply bnd_get_canonical_bind. intros tm.
    destruct (peek COMMA ts2); [exact I|].
    eapply bnd_bind; [apply mustbe_bnd_le|]. intros y ts3 H3. apply bnd_ok. cbn [snd]. lia.
  - intros c ts. cbn [p_decl_spec]. destruct (peek TILDE ts).
    + destruct (negb (cur_is_class c)); [exact I|]. pose proof (tl_len ts) as Ht.
      eapply bnd_bind; [apply mustbe_bnd_le|]. intros nm ts1 H1. cbn [fst snd].
      destruct (negb _); [exact I|]. eapply bnd_mono; [apply IH2 | lia].
    + eapply bnd_bind; [apply IH1|]. intros s1 ts1 H1. cbn [fst]. destruct (ss_spec s1); [exact I | apply bnd_ok; lia].
Qed.

Lemma bnd_p_arrays : forall fuel acc ts, bnd (List.length ts) (p_arrays fuel acc ts).
Proof.
  induction fuel as [|f IH]; intros; cbn [p_arrays]; [exact I|].
  destruct (peek LBRACKET ts); [|apply bnd_ok; lia]. pose proof (tl_len ts) as Ht.
  eapply bnd_bind; [apply bnd_parse_expression|]. intros x ts1 H1. cbn [fst snd].
  eapply bnd_bind; [apply mustbe_bnd_le|]. intros y ts2 H2. cbn [snd]. eapply bnd_mono; [apply IH | lia].
Qed.

Lemma bnd_decl : forall fuel,
  (forall c ts, bnd (List.length ts) (p_declaration fuel c ts)) /\
  (forall c ts acc, bnd (List.length ts) (p_params fuel c ts acc)).
Proof.
  induction fuel as [|f IH]; [repeat split; intros; exact I|].
  destruct IH as (IH1 & IH2). destruct (bnd_spec f) as (_ & _ & BS).
  repeat split.
  - intros c ts. cbn [p_declaration].
    eapply bnd_bind; [apply BS|]. intros s ts1 H1.
    apply bnd_get_canonical_bind. intros tm.
    eapply bnd_bind with (m := List.length ts1).
    { destruct (ss_ctor s || _); [apply bnd_ok; lia | apply bnd_p_declarator]. }
    intros dt ts2 H2. cbn [fst snd].
    eapply bnd_bind with (m := List.length ts2).
    { destruct (peek LPAREN ts2); [|apply bnd_ok; lia]. pose proof (tl_len ts2) as Ht.
      eapply bnd_bind; [apply IH2|]. intros ps ts3 H3. cbn [fst snd].
      destruct ts3 as [|t r]; [apply bnd_ok; cbn; lia|]. cbn [List.length] in H3.
      destruct (tk t); try (apply bnd_ok; cbn [List.length]; lia).
      destruct (ueqb (tv t) (cp "const")); [apply bnd_ok; lia | exact I]. }
    intros [params fconst] ts4 H4.
    eapply bnd_bind; [apply bnd_p_arrays|]. intros ar ts5 H5. cbn [fst snd].
    eapply bnd_bind; [apply bnd_p_attribute|]. intros at_ ts6 H6. cbn [fst snd].
    destruct (peek EQUALS ts6).
    + pose proof (initializer_len (tl ts6)) as Hi. destruct (initializer (tl ts6)) as [v ts7]. cbn [snd] in Hi.
      apply bnd_ok. pose proof (tl_len ts6). lia.
    + apply bnd_ok. lia.
  - intros c ts acc. cbn [p_params]. destruct (peek RPAREN ts); [apply bnd_ok; pose proof (tl_len ts); lia|].
    eapply bnd_bind; [apply IH1|]. intros x ts1 H1. cbn [fst snd].
    destruct (peek COMMA ts1).
    + destruct (peek VARARG (tl ts1)); [exact I|]. eapply bnd_mono; [apply IH2|]. pose proof (tl_len ts1). lia.
    + eapply bnd_bind; [apply mustbe_bnd_le|]. intros y ts2 H2. apply bnd_ok. cbn [snd]. lia.
Qed.

(* ---- declarations: the fuel is enough ---- *)
Lemma nf_collect_paren : forall fuel depth acc ts, List.length ts + 1 <= fuel -> nf (collect_paren fuel depth acc ts).
Proof.
  induction fuel as [|f IH]; intros depth acc ts Hf; [lia|]. cbn [collect_paren].
  destruct ts as [|t r]; [apply nf_rej|]. cbn [List.length] in Hf.
  destruct (tk t); try (apply IH; lia).
  destruct depth as [|[|d]]; try apply nf_ok. apply IH; lia.
Qed.

Lemma nf_p_attribute : forall fuel attrs ts, List.length ts + 1 <= fuel -> nf (p_attribute fuel attrs ts).
Proof.
  induction fuel as [|f IH]; intros attrs ts Hf; [lia|]. cbn [p_attribute].
  destruct (peek PLUS ts) eqn:Ep; [|apply nf_ok].
  pose proof (peek_tl PLUS ts Ep ltac:(discriminate)) as Ht.
  apply nf_bind; [apply nf_mustbe|]. intros [nm ts1] E. cbn [fst snd].
  pose proof (mustbe_bnd_le ID (tl ts)) as Hb. rewrite E in Hb. cbv beta iota delta [bnd] in Hb.
  destruct (peek LPAREN ts1).
  - apply nf_bind; [apply nf_collect_paren; pose proof (tl_len ts1); lia|]. intros [x ts2] E2. cbn [fst snd].
    pose proof (bnd_collect_paren f 1 [] (tl ts1)) as Hb2. rewrite E2 in Hb2. cbv beta iota delta [bnd] in Hb2.
    apply IH. pose proof (tl_len ts1). lia.
  - destruct (peek EQUALS ts1).
    + pose proof (initializer_len (tl ts1)) as Hi. destruct (initializer (tl ts1)) as [v ts2]. cbn [snd] in Hi.
      apply IH. pose proof (tl_len ts1). lia.
    + apply IH. lia.
Qed.

Lemma nf_p_declarator : forall fuel ts, List.length ts + 1 <= fuel -> nf (p_declarator fuel ts).
Proof.
  induction fuel as [|f IH]; intros ts Hf; [lia|]. cbn [p_declarator].
  pose proof (p_pointer_len ts []) as Hp. destruct (p_pointer [] ts) as [ptrs ts1]. cbn [snd] in Hp.
  destruct ts1 as [|t r]; [apply nf_ok|]. cbn [List.length] in Hp.
  destruct (tk t); try apply nf_ok.
  apply nf_bind; [apply IH; lia|]. intros [x ts2] E. cbn [fst snd].
  apply nf_bind; [apply nf_mustbe|]. intros; apply nf_ok.
Qed.

Lemma nf_p_nested : forall fuel ns names ts, List.length ts + 1 <= fuel -> nf (p_nested fuel ns names ts).
Proof.
  induction fuel as [|f IH]; intros ns names ts Hf; [lia|]. cbn [p_nested].
  destruct (peek NAMESPACE ts) eqn:Ep; [|apply nf_ok].
  pose proof (peek_tl NAMESPACE ts Ep ltac:(discriminate)) as Ht.
  apply nf_bind; [apply nf_mustbe|]. intros [nm ts1] E. cbn [fst snd].
  pose proof (mustbe_bnd_le ID (tl ts)) as Hb. rewrite E in Hb. cbv beta iota delta [bnd] in Hb.
  destruct (sym_lookup _ _); [|apply nf_rej]. apply IH. lia.
Qed.

Lemma nf_get_canonical_bind {B} c s (f : ustr -> result B) : (forall tm, nf (f tm)) -> nf (bind (get_canonical c s) f).
Proof. intros H. unfold get_canonical. destruct (ss_tm s); cbn [bind]; [apply H|]. destruct (ustr_in _ _); cbn [bind]; [apply H | apply nf_rej]. Qed.

Lemma nf_spec : forall fuel,
  (forall c found s ts, 8 * List.length ts + 1 <= fuel -> nf (p_specifier fuel c found s ts)) /\
  (forall c s ts, 8 * List.length ts + 1 <= fuel -> nf (p_targs fuel c s ts)) /\
  (forall c ts, 8 * List.length ts + 2 <= fuel -> nf (p_decl_spec fuel c ts)).
Proof.
  induction fuel as [|f IH]; [repeat split; intros; lia|].
  destruct IH as (IH1 & IH2 & IH3). destruct (bnd_spec f) as (B1 & B2 & B3).
  repeat split.
  - intros c found s ts Hf. cbn [p_specifier]. destruct ts as [|t r]; [apply nf_ok|]. cbn [List.length] in Hf.
    destruct (tk t); try apply nf_ok; try (apply IH1; lia).
    + destruct found; [apply nf_ok|]. destruct (sym_lookup (tv t) (scope c)) as [ns|]; [|apply nf_ok].
      apply nf_bind; [apply nf_p_nested; lia|]. intros [[ns2 names] ts1] E.
      pose proof (bnd_p_nested f ns [tv t] r) as Hb. rewrite E in Hb. cbv beta iota delta [bnd] in Hb.
      destruct ns2 as [id2 k2 tn2 mem2]. destruct tn2; try apply nf_rej;
        (apply nf_bind; [apply IH2; lia|]; intros [s2 ts2] E2;
         match goal with |- nf (if ?b then _ else _) => destruct b end; [apply nf_ok|];
         apply IH1;
         match type of E2 with p_targs f c ?s1 ts1 = _ => pose proof (B2 c s1 ts1) as Hb2 end; rewrite E2 in Hb2; cbn in Hb2; lia).
    + destruct (ueqb (tv t) (cp "const")); apply IH1; lia.
  - intros c s ts Hf. cbn [p_targs]. destruct (peek LT ts) eqn:Ep; [|apply nf_ok].
    pose proof (peek_tl LT ts Ep ltac:(discriminate)) as Ht.
    destruct (peek GT (tl ts)); [apply nf_ok|].
    apply nf_bind; [apply IH3; lia|]. intros [s1 ts2] E.
    apply nf_get_canonical_bind. intros tm.
    destruct (peek COMMA ts2); [apply nf_rej|].
    apply nf_bind; [apply nf_mustbe|]. intros; apply nf_ok.
  - intros c ts Hf. cbn [p_decl_spec]. destruct (peek TILDE ts) eqn:Ep.
    + pose proof (peek_tl TILDE ts Ep ltac:(discriminate)) as Ht.
      destruct (negb (cur_is_class c)); [apply nf_rej|].
      apply nf_bind; [apply nf_mustbe|]. intros [nm ts1] E. cbn [fst snd].
      pose proof (mustbe_bnd_le ID (tl ts)) as Hb. rewrite E in Hb. cbv beta iota delta [bnd] in Hb.
      destruct (negb _); [apply nf_rej|]. apply IH2. lia.
    + apply nf_bind; [apply IH1; lia|]. intros [s1 ts1] E. cbn [fst]. destruct (ss_spec s1); [apply nf_rej | apply nf_ok].
Qed.

Lemma nf_p_arrays : forall fuel acc ts, List.length ts + 1 <= fuel -> nf (p_arrays fuel acc ts).
Proof.
  induction fuel as [|f IH]; intros acc ts Hf; [lia|]. cbn [p_arrays].
  destruct (peek LBRACKET ts) eqn:Ep; [|apply nf_ok].
  pose proof (peek_tl LBRACKET ts Ep ltac:(discriminate)) as Ht.
  apply nf_bind; [apply parse_expression_total|]. intros [x ts1] E. cbn [fst snd].
  pose proof (bnd_parse_expression (tl ts)) as Hb. rewrite E in Hb. cbv beta iota delta [bnd] in Hb.
  apply nf_bind; [apply nf_mustbe|]. intros [y ts2] E2. cbn [snd].
  pose proof (mustbe_bnd_le RBRACKET ts1) as Hb2. rewrite E2 in Hb2. cbv beta iota delta [bnd] in Hb2. apply IH. lia.
Qed.

Lemma nf_decl : forall fuel,
  (forall c ts, 8 * List.length ts + 3 <= fuel -> nf (p_declaration fuel c ts)) /\
  (forall c ts acc, 8 * List.length ts + 4 <= fuel -> nf (p_params fuel c ts acc)).
Proof.
  induction fuel as [|f IH]; [repeat split; intros; lia|].
  destruct IH as (IH1 & IH2). destruct (nf_spec f) as (_ & _ & NS). destruct (bnd_spec f) as (_ & _ & BS).
  destruct (bnd_decl f) as (BD & BP).
  repeat split.
  - intros c ts Hf. cbn [p_declaration].
    apply nf_bind; [apply NS; lia|]. intros [s ts1] E.
    pose proof (BS c ts) as H1. rewrite E in H1. cbv beta iota delta [bnd] in H1.
    apply nf_get_canonical_bind. intros tm.
    apply nf_bind.
    { destruct (ss_ctor s || _); [apply nf_ok | apply nf_p_declarator; lia]. }
    intros [dt ts2] E2. cbn [fst snd].
    assert (H2 : List.length ts2 <= List.length ts1).
    { destruct (ss_ctor s || _); [inversion E2; lia|].
      pose proof (bnd_p_declarator f ts1) as Hb. rewrite E2 in Hb. exact Hb. }
    apply nf_bind.
    { destruct (peek LPAREN ts2) eqn:Ep; [|apply nf_ok].
      pose proof (peek_tl LPAREN ts2 Ep ltac:(discriminate)) as Ht.
      apply nf_bind; [apply IH2; lia|]. intros [ps ts3] E3. cbn [fst snd].
      destruct ts3 as [|t r]; [apply nf_ok|]. destruct (tk t); try apply nf_ok.
      destruct (ueqb (tv t) (cp "const")); [apply nf_ok | apply nf_rej]. }
    intros [[params fconst] ts4] E4.
    assert (H4 : List.length ts4 <= List.length ts2).
    { destruct (peek LPAREN ts2) eqn:Ep; [|inversion E4; lia].
      pose proof (tl_len ts2) as Ht.
      destruct (p_params f c (tl ts2) []) as [[ps ts3]| | |] eqn:E3; cbn [bind fst snd] in E4; try discriminate.
      pose proof (BP c (tl ts2) []) as Hb. rewrite E3 in Hb. cbv beta iota delta [bnd] in Hb.
      destruct ts3 as [|t r]; [inversion E4; subst; cbn; lia|]. cbn [List.length] in Hb.
      destruct (tk t); try (inversion E4; subst; cbn [List.length]; lia).
      destruct (ueqb (tv t) (cp "const")); [inversion E4; subst; lia | discriminate]. }
    apply nf_bind; [apply nf_p_arrays; lia|]. intros [ar ts5] E5. cbn [fst snd].
    pose proof (bnd_p_arrays f [] ts4) as H5. rewrite E5 in H5. cbv beta iota delta [bnd] in H5.
    apply nf_bind; [apply nf_p_attribute; lia|]. intros [at_ ts6] E6. cbn [fst snd].
    destruct (peek EQUALS ts6); [destruct (initializer (tl ts6)) |]; apply nf_ok.
  - intros c ts acc Hf. cbn [p_params]. destruct (peek RPAREN ts); [apply nf_ok|].
    apply nf_bind; [apply IH1; lia|]. intros [x ts1] E. cbn [fst snd].
    pose proof (BD c ts) as H1. rewrite E in H1. cbv beta iota delta [bnd] in H1.
    destruct (peek COMMA ts1) eqn:Ec.
    + pose proof (peek_tl COMMA ts1 Ec ltac:(discriminate)) as Ht.
      destruct (peek VARARG (tl ts1)); [apply nf_rej|]. apply IH2. lia.
    + apply nf_bind; [apply nf_mustbe|]. intros; apply nf_ok.
Qed.

Lemma nf_p_declaration_fuel c ts ts0 : List.length ts <= List.length ts0 -> nf (p_declaration (decl_fuel ts0) c ts).
Proof. intros H. apply nf_decl. unfold decl_fuel. lia. Qed.
Lemma bnd_p_declaration fuel c ts : bnd (List.length ts) (p_declaration fuel c ts).
Proof. apply bnd_decl. Qed.

Lemma nf_p_struct_members : forall fuel c ts acc, List.length ts + 1 <= fuel -> nf (p_struct_members fuel c ts acc).
Proof.
  induction fuel as [|f IH]; intros c ts acc Hf; [lia|]. cbn [p_struct_members].
  destruct (peek RCURLY ts); [apply nf_ok|].
  apply nf_bind; [apply nf_p_declaration_fuel; lia|]. intros [x ts1] E. cbn [fst snd].
  pose proof (bnd_p_declaration (decl_fuel ts) c ts) as H1. rewrite E in H1. cbv beta iota delta [bnd] in H1.
  apply nf_bind; [apply nf_mustbe|]. intros [y ts2] E2. cbn [snd].
  pose proof (mustbe_bnd_lt SEMICOLON ts1 ltac:(discriminate)) as H2. rewrite E2 in H2. cbv beta iota delta [bnd] in H2.
  destruct ts1 as [|t1 r1]; [cbn in E2; discriminate|]. cbn [List.length] in *. apply IH. lia.
Qed.

Lemma nf_p_template_params : forall fuel ts acc, List.length ts + 1 <= fuel -> nf (p_template_params fuel ts acc).
Proof.
  induction fuel as [|f IH]; intros ts acc Hf; [lia|]. cbn [p_template_params].
  destruct (peek GT ts); [apply nf_ok|].
  set (ts1 := if peek KW_TYPENAME ts || peek KW_CLASS ts then tl ts else ts).
  assert (H1 : List.length ts1 <= List.length ts) by (unfold ts1; destruct (_ || _); [pose proof (tl_len ts); lia | lia]).
  apply nf_bind; [apply nf_mustbe|]. intros [nm ts2] E. cbn [fst snd].
  pose proof (mustbe_bnd_lt ID ts1 ltac:(discriminate)) as H2. rewrite E in H2. cbv beta iota delta [bnd] in H2.
  destruct ts1 as [|t1 r1] eqn:E1; [cbn in E; discriminate|]. cbn [List.length] in *.
  destruct (peek COMMA ts2); [|apply nf_ok]. apply IH. pose proof (tl_len ts2). lia.
Qed.

Lemma nf_p_class c ts : nf (p_class c ts).
Proof.
  unfold p_class. apply nf_bind; [apply nf_mustbe|]. intros [a ts0] _. cbn [fst snd].
  apply nf_bind; [apply nf_mustbe|]. intros [nm ts1] _. cbn [fst snd].
  destruct (peek COLON ts1); [|apply nf_ok].
  destruct (peek KW_PUBLIC (tl ts1) || peek KW_PRIVATE (tl ts1) || peek KW_PROTECTED (tl ts1)).
  - destruct (peek ID (tl (tl ts1))).
    + destruct (sym_lookup _ _); [|apply nf_rej].
      apply nf_bind; [apply nf_p_nested; pose proof (tl_len (tl (tl ts1))); lia|]. intros [[ns names] ts4] _. apply nf_ok.
    + apply nf_bind; [apply nf_mustbe|]. intros; apply nf_ok.
  - destruct (peek ID (tl ts1)).
    + destruct (sym_lookup _ _); [|apply nf_rej].
      apply nf_bind; [apply nf_p_nested; pose proof (tl_len (tl ts1)); lia|]. intros [[ns names] ts4] _. apply nf_ok.
    + apply nf_bind; [apply nf_mustbe|]. intros; apply nf_ok.
Qed.

Lemma nf_p_members : forall fuel ts acc, List.length ts + 1 <= fuel -> nf (p_members fuel ts acc).
Proof.
  induction fuel as [|f IH]; intros ts acc Hf; [lia|]. cbn [p_members].
  destruct (peek RCURLY ts); [apply nf_ok|].
  apply nf_bind; [apply nf_mustbe|]. intros [nm ts1] E. cbn [fst snd].
  pose proof (mustbe_bnd_lt ID ts ltac:(discriminate)) as H1. rewrite E in H1. cbv beta iota delta [bnd] in H1.
  destruct ts as [|t0 r0]; [cbn in E; discriminate|]. cbn [List.length] in *.
  destruct (peek EQUALS ts1).
  - apply nf_bind; [apply parse_expression_total|]. intros [x ts2] E2. cbn [fst snd].
    pose proof (bnd_parse_expression (tl ts1)) as H2. rewrite E2 in H2. cbv beta iota delta [bnd] in H2. pose proof (tl_len ts1).
    destruct (peek COMMA ts2); [|apply nf_ok]. apply IH. pose proof (tl_len ts2). lia.
  - destruct (peek COMMA ts1); [|apply nf_ok]. apply IH. pose proof (tl_len ts1). lia.
Qed.

Lemma nf_parse_enum s : nf (parse_enum s).
Proof.
  unfold parse_enum. apply nf_bind; [apply nf_mustbe|]. intros [a ts1] E. cbn [fst snd].
  pose proof (mustbe_bnd_le KW_ENUM (tokenize s)) as H1. rewrite E in H1. cbv beta iota delta [bnd] in H1.
  set (p := if peek KW_STRUCT ts1 then (Some (cp "struct"), tl ts1) else if peek KW_CLASS ts1 then (Some (cp "class"), tl ts1) else (None, ts1)).
  assert (Hp : List.length (snd p) <= List.length ts1).
  { unfold p. destruct (peek KW_STRUCT ts1); [cbn; pose proof (tl_len ts1); lia|]. destruct (peek KW_CLASS ts1); cbn; [pose proof (tl_len ts1); lia | lia]. }
  destruct p as [scope ts2]. cbn [snd] in Hp.
  apply nf_bind; [apply nf_mustbe|]. intros [nm ts3] E3. cbn [fst snd].
  pose proof (mustbe_bnd_le ID ts2) as H3. rewrite E3 in H3. cbv beta iota delta [bnd] in H3.
  apply nf_bind; [apply nf_mustbe|]. intros [lc ts4] E4. cbn [fst snd].
  pose proof (mustbe_bnd_le LCURLY ts3) as H4. rewrite E4 in H4. cbv beta iota delta [bnd] in H4.
  apply nf_bind; [apply nf_p_members; lia|]. intros [ms ts5] _. cbn [fst snd].
  apply nf_bind; [apply nf_mustbe|]. intros [rc ts6] _. cbn [snd].
  apply nf_bind; [apply nf_mustbe|]. intros; apply nf_ok.
Qed.

Lemma nf_p_stmt c ts : nf (p_stmt c ts).
Proof.
  unfold p_stmt. destruct (tk_of ts);
    try (apply nf_bind; [apply nf_p_declaration_fuel; lia|]; intros; apply nf_ok).
  - (* NAMESPACE *) apply nf_bind; [apply nf_mustbe|]. intros; apply nf_ok.
  - (* KW_CLASS *) apply nf_p_class.
  - apply nf_rej.
  - (* KW_STRUCT *) apply nf_bind; [apply nf_mustbe|]. intros [nm ts1] E. cbn [fst snd].
    pose proof (mustbe_bnd_le ID (tl ts)) as H1. rewrite E in H1. cbv beta iota delta [bnd] in H1. pose proof (tl_len ts).
    destruct (peek LCURLY ts1); [|apply nf_ok].
    apply nf_bind; [apply nf_p_struct_members; pose proof (tl_len ts1); lia|]. intros [ms ts2] _. cbn [fst snd].
    apply nf_bind; [apply nf_mustbe|]. intros; apply nf_ok.
  - (* KW_TEMPLATE *) apply nf_bind; [apply nf_mustbe|]. intros [a ts1] E. cbn [fst snd].
    pose proof (mustbe_bnd_le LT (tl ts)) as H1. rewrite E in H1. cbv beta iota delta [bnd] in H1. pose proof (tl_len ts).
    apply nf_bind; [apply nf_p_template_params; lia|]. intros [ps ts2] E2. cbn [fst snd].
    apply nf_bind; [apply nf_mustbe|]. intros [g ts3] E3. cbn [fst snd].
    destruct (peek KW_CLASS ts3).
    + apply nf_bind; [apply nf_p_class|]. intros; apply nf_ok.
    + apply nf_bind; [|intros; apply nf_ok]. apply nf_decl. unfold decl_fuel.
      assert (List.length ts3 <= List.length ts); [|lia].
      pose proof (mustbe_bnd_le GT ts2) as H3. rewrite E3 in H3. cbv beta iota delta [bnd] in H3.
      assert (List.length ts2 <= List.length ts1); [|lia].
      clear - E2. revert ts1 ps ts2 E2. generalize (@nil ustr) as acc. generalize (S (List.length ts)) as fuel.
      induction fuel as [|f IH]; intros acc ts1 ps ts2 E2; cbn [p_template_params] in E2; [discriminate|].
      destruct (peek GT ts1); [inversion E2; lia|].
      set (tsa := if peek KW_TYPENAME ts1 || peek KW_CLASS ts1 then tl ts1 else ts1) in *.
      assert (Ha : List.length tsa <= List.length ts1) by (unfold tsa; destruct (_ || _); [pose proof (tl_len ts1); lia | lia]).
      clearbody tsa.
      destruct (mustbe ID tsa) as [[nm tsb]| | |] eqn:Em; cbn [bind fst snd] in E2; try discriminate.
      pose proof (mustbe_bnd_le ID tsa) as Hb. rewrite Em in Hb. cbv beta iota delta [bnd] in Hb.
      destruct (peek COMMA tsb); [|inversion E2; subst; lia].
      specialize (IH _ _ _ _ E2). pose proof (tl_len tsb). lia.
Qed.

(* the declaration parser never runs out of fuel: for every text and every scope the model terminates with an answer *)
Theorem parse_statement_total : forall c s, parse_statement c s <> OutOfFuel.
Proof.
  intros c s. change (nf (parse_statement c s)). unfold parse_statement.
  destruct (peek KW_ENUM (tokenize s)).
  - apply nf_bind; [apply nf_parse_enum|]. intros; apply nf_ok.
  - apply nf_bind; [apply nf_p_stmt|]. intros [st ts1] _. cbn [fst snd].
    apply nf_bind; [apply nf_mustbe|]. intros; apply nf_ok.
Qed.

(* ---- attribute validation never runs out of fuel either ---- *)
From Shroud Require Import Model.Options Model.Attrs.

Lemma parse_expression_nil x ts' : parse_expression [] <> Ok (x, ts').
Proof. unfold parse_expression. apply expr_nil. Qed.

Lemma nf_p_shape : forall fuel ts, List.length ts + 1 <= fuel -> nf (p_shape fuel ts).
Proof.
  induction fuel as [|f IH]; intros ts Hf; [lia|]. cbn [p_shape].
  apply nf_bind; [apply parse_expression_total|]. intros [x ts1] E. cbn [fst snd].
  pose proof (bnd_parse_expression ts) as H1. rewrite E in H1. cbv beta iota delta [bnd] in H1.
  destruct ts as [|t0 r0]; [exfalso; eapply parse_expression_nil; exact E|]. cbn [List.length] in *.
  destruct (peek COMMA ts1).
  - apply IH. pose proof (tl_len ts1). lia.
  - apply nf_bind; [apply nf_mustbe|]. intros; discriminate.
Qed.

Lemma nf_check_dimension s : nf (check_dimension s).
Proof. unfold check_dimension. destruct (ueqb s (cp "..")); [discriminate|]. apply nf_p_shape. lia. Qed.

Lemma nf_parse_attrs d : nf (parse_attrs d).
Proof.
  unfold parse_attrs. destruct (truthy _); [|discriminate]. destruct (aget _ _); try discriminate.
  pose proof (nf_check_dimension s) as H. destruct (check_dimension s); try discriminate. contradiction.
Qed.

Lemma nf_unit_if (b : bool) (r1 r2 : result unit) : nf r1 -> nf r2 -> nf (if b then r1 else r2).
Proof. destruct b; auto. Qed.

Lemma nf_check_intent d : nf (check_intent d).
Proof. unfold check_intent. destruct (aget _ _); try discriminate. repeat (match goal with |- nf (if ?b then _ else _) => destruct b end); discriminate. Qed.
Lemma nf_check_deref d : nf (check_deref d).
Proof. unfold check_deref. destruct (aget _ _); try discriminate. repeat (match goal with |- nf (if ?b then _ else _) => destruct b end); discriminate. Qed.
Lemma nf_check_rank_value v : nf (check_rank_value v).
Proof. unfold check_rank_value. destruct v; try discriminate; destruct (py_int _); try discriminate; destruct (_ <? _)%Z; discriminate. Qed.

Lemma nf_check_common e d : nf (check_common e d).
Proof.
  unfold check_common.
  apply nf_bind; [apply nf_check_deref|]. intros _ _.
  apply nf_bind.
  { match goal with |- nf (if ?b then _ else _) => destruct b end; [|discriminate].
    apply nf_bind; [apply nf_check_rank_value|]. intros _ _. destruct (negb _); discriminate. }
  intros _ _. apply nf_bind.
  { destruct (truthy (aget "dimension" d)); [|discriminate]. destruct (aget "dimension" d); try discriminate;
      repeat (match goal with |- nf (if ?b then _ else _) => destruct b end); discriminate. }
  intros _ _. apply nf_bind.
  { destruct (aget "owner" d); try discriminate. destruct (in_strs _ _); discriminate. }
  intros _ _. destruct (aget "free_pattern" d); try discriminate. destruct (ustr_in _ _); discriminate.
Qed.

Lemma mx_ge : forall (l : list decl) a, In a l ->
  decl_depth a <= (fix mx (l : list decl) : nat := match l with [] => 0 | a :: r => Nat.max (decl_depth a) (mx r) end) l.
Proof.
  induction l as [|b l IH]; intros a Hin; [contradiction|].
  destruct Hin as [H|H]; [subst; lia | specialize (IH a H); lia].
Qed.

Lemma nf_check_arg : forall fuel e d, decl_depth d <= fuel -> nf (check_arg fuel e d).
Proof.
  induction fuel as [|f IH]; intros e d Hd.
  - destruct d as [sp st c v tm dt p ar at_ ini ta fc]. cbn [decl_depth] in Hd. destruct p; lia.
  - cbn [check_arg]. destruct (negb (names_ok _ _)); [discriminate|].
    apply nf_bind; [apply nf_check_intent|]. intros _ _.
    apply nf_bind; [apply nf_check_common|]. intros _ _.
    apply nf_bind. { repeat (match goal with |- nf (if ?b then _ else _) => destruct b end); discriminate. }
    intros _ _. apply nf_bind.
    { destruct (truthy (aget "charlen" d)); [|discriminate].
      repeat (match goal with |- nf (if ?b then _ else _) => destruct b end); try discriminate.
      destruct (aget "charlen" d); discriminate. }
    intros _ _. apply nf_bind.
    { destruct (ueqb _ _); destruct (d_targs d); discriminate. }
    intros _ _. apply nf_bind; [apply nf_parse_attrs|]. intros _ _.
    destruct (is_fptr d); [|discriminate].
    destruct d as [sp st c v tm dt p ar at_ ini ta fc]. cbn [d_params]. cbn [decl_depth] in Hd.
    destruct p as [l|]; [|discriminate].
    assert (Hl : forall a, In a l -> decl_depth a <= f) by (intros a Ha; pose proof (mx_ge l a Ha); lia).
    clear Hd. induction l as [|a r IHl]; [discriminate|].
    apply nf_bind; [apply IH; apply Hl; left; reflexivity|]. intros _ _. apply IHl. intros b Hb. apply Hl. right. exact Hb.
Qed.

Lemma nf_each {A} (f : A -> result unit) l : (forall a, nf (f a)) -> nf (each_result f l).
Proof. intros H. induction l as [|a r IH]; cbn [each_result]; [discriminate|]. apply nf_bind; [apply H | intros; exact IH]. Qed.

Lemma nf_check_implied decls d : nf (check_implied decls d).
Proof.
  unfold check_implied. destruct (truthy _); [|discriminate]. destruct (aget _ _); try discriminate.
  apply nf_bind; [apply parse_expression_total|]. intros [x ts1] _.
  apply nf_bind; [apply nf_mustbe|]. intros _ _. cbn [fst].
  generalize x. fix IHx 1. intros y. destruct y as [n args|v|l op r|op a|a]; cbn [implied_walk]; try discriminate.
  - destruct args as [args|]; [|discriminate]. destruct (in_strs n _).
    + destruct args as [|a [|b r]]; try discriminate. destruct a; try discriminate. destruct (find_arg _ _); discriminate.
    + induction args as [|a r IHl]; [discriminate|]. apply nf_bind; [apply IHx | intros; exact IHl].
  - apply nf_bind; [apply IHx | intros; apply IHx].
  - apply IHx.
  - apply IHx.
Qed.

Theorem parse_and_verify_total : forall c e v s, parse_and_verify c e v s <> OutOfFuel.
Proof.
  intros c e v s. change (nf (parse_and_verify c e v s)). unfold parse_and_verify.
  apply nf_bind; [apply parse_statement_total|]. intros st _. destruct st; try discriminate.
  destruct v.
  - unfold check_var. destruct (negb _); [discriminate|]. destruct (_ && _); [discriminate | apply nf_parse_attrs].
  - unfold check_fcn. destruct (negb _); [discriminate|].
    apply nf_bind; [apply nf_check_common|]. intros _ _.
    apply nf_bind; [apply nf_each; intros a; apply nf_check_arg; lia|]. intros _ _.
    apply nf_bind; [apply nf_each; intros a; apply nf_check_implied|]. intros _ _. apply nf_parse_attrs.
Qed.
