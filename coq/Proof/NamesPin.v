(* Proof/NamesPin.v — an explicit function_suffix that spells the default number of its own position changes no emitted name:
   the other members of the overload set keep the number of their position (define_function_suffix enumerates the whole set). *)
From Coq Require Import List NArith ZArith Bool Arith Lia.
From Shroud Require Import Base.Ustr Model.Splicer Model.Options Model.Names Proof.Names.
Import ListNotations.

Definition upd {A} (i : nat) (x : A) (l : list A) : list A := firstn i l ++ x :: skipn (S i) l.

Lemma upd_cons_S {A} i (x a : A) r : upd (S i) x (a :: r) = a :: upd i x r.
Proof. reflexivity. Qed.
Lemma upd_cons_0 {A} (x a : A) r : upd 0 x (a :: r) = x :: r.
Proof. reflexivity. Qed.

Lemma upd_length {A} i (x : A) l : i < length l -> length (upd i x l) = length l.
Proof.
  revert i; induction l as [|a r IH]; intros i H; simpl in H; [lia|].
  destruct i; [reflexivity|]. rewrite upd_cons_S. simpl. rewrite IH; [reflexivity|lia].
Qed.

Lemma upd_nth_same {A} i (x : A) l : i < length l -> nth_error (upd i x l) i = Some x.
Proof.
  revert i; induction l as [|a r IH]; intros i H; simpl in H; [lia|].
  destruct i; [reflexivity|]. rewrite upd_cons_S. simpl. apply IH. lia.
Qed.

Lemma upd_nth_other {A} i j (x : A) l : i <> j -> i < length l -> nth_error (upd i x l) j = nth_error l j.
Proof.
  revert i j; induction l as [|a r IH]; intros i j Hn H; simpl in H; [lia|].
  destruct i.
  - destruct j; [lia|]. reflexivity.
  - rewrite upd_cons_S. destruct j; [reflexivity|]. simpl. apply IH; lia.
Qed.

(* the visible part of an emitted function: everything but the "set locally" flag *)
Definition vis (e : emitted) := (e_src e, e_origin e, e_name e, e_fs e, e_ts e, e_templ e, e_c e, e_f e).

Definition pin_e (l : list emitted) (i : nat) (e : emitted) : emitted :=
  {| e_src := e_src e; e_origin := e_origin e; e_name := e_name e;
     e_fs := 95%N :: decimal (Z.of_nat (group_size (e_name e) (firstn i l))); e_fs_local := true;
     e_ts := e_ts e; e_templ := e_templ e; e_c := e_c e; e_f := e_f e |}.

Lemma gs_upd_firstn n e' : forall l i j e, nth_error l i = Some e -> in_group n e' = in_group n e ->
  group_size n (firstn j (upd i e' l)) = group_size n (firstn j l).
Proof.
  induction l as [|a r IH]; intros i j e Hn Hg.
  - destruct i; discriminate.
  - destruct i.
    + simpl in Hn. injection Hn as ->. rewrite upd_cons_0. destruct j; [reflexivity|].
      unfold group_size. simpl. rewrite Hg. destruct (in_group n e); reflexivity.
    + simpl in Hn. rewrite upd_cons_S. destruct j; [reflexivity|].
      unfold group_size in *. simpl. specialize (IH i j e Hn Hg).
      destruct (in_group n a); simpl; rewrite IH; reflexivity.
Qed.

Lemma gs_upd n e' l i e : nth_error l i = Some e -> in_group n e' = in_group n e ->
  group_size n (upd i e' l) = group_size n l.
Proof.
  intros Hn Hg.
  assert (Hi : i < length l) by (apply nth_error_Some; rewrite Hn; discriminate).
  pose proof (gs_upd_firstn n e' l i (length l) e Hn Hg) as H.
  rewrite <- (upd_length i e' l Hi) in H at 1. rewrite !firstn_all in H. exact H.
Qed.

Lemma in_group_pin n l i e : in_group n (pin_e l i e) = in_group n e.
Proof. reflexivity. Qed.

Lemma number_nth_none l j : nth_error l j = None -> nth_error (number l) j = None.
Proof. intros H. apply nth_error_None. rewrite number_length. apply nth_error_None. exact H. Qed.

Lemma number_upd_pin l i e : nth_error l i = Some e -> e_templ e = false -> 1 < group_size (e_name e) l -> e_fs_local e = false ->
  forall j, option_map vis (nth_error (number (upd i (pin_e l i e) l)) j) = option_map vis (nth_error (number l) j).
Proof.
  intros Hn Ht Hg Hl j.
  assert (Hi : i < length l) by (apply nth_error_Some; rewrite Hn; discriminate).
  set (l' := upd i (pin_e l i e) l).
  destruct (Nat.eq_dec i j) as [<-|Hij].
  - rewrite (number_nth l' i (pin_e l i e)) by (apply upd_nth_same; exact Hi).
    rewrite (number_nth l i e Hn). cbn [option_map]. f_equal.
    unfold relabel. cbn [pin_e e_fs_local e_templ e_name negb andb].
    rewrite Ht, Hl. cbn [negb andb].
    replace (1 <? group_size (e_name e) l) with true by (symmetry; apply Nat.ltb_lt; exact Hg).
    rewrite andb_false_r. cbn [andb]. unfold vis, pin_e. cbn. rewrite ?Ht. reflexivity.
  - destruct (nth_error l j) as [x|] eqn:Hx.
    + assert (Hx' : nth_error l' j = Some x) by (unfold l'; rewrite upd_nth_other; assumption).
      rewrite (number_nth l' j x Hx'), (number_nth l j x Hx). cbn [option_map]. f_equal.
      unfold relabel, l'.
      rewrite (gs_upd (e_name x) (pin_e l i e) l i e Hn (in_group_pin _ l i e)).
      rewrite (gs_upd_firstn (e_name x) (pin_e l i e) l i j e Hn (in_group_pin _ l i e)).
      reflexivity.
    + assert (Hx' : nth_error l' j = None) by (unfold l'; rewrite upd_nth_other; assumption).
      rewrite (number_nth_none _ _ Hx), (number_nth_none _ _ Hx'). reflexivity.
Qed.

Lemma map_ext_nth {A B} (f : A -> B) : forall l l',
  (forall j, option_map f (nth_error l j) = option_map f (nth_error l' j)) -> map f l = map f l'.
Proof.
  induction l as [|a r IH]; intros [|b r'] H.
  - reflexivity.
  - specialize (H 0). discriminate.
  - specialize (H 0). discriminate.
  - simpl. f_equal.
    + specialize (H 0). simpl in H. injection H as H. exact H.
    + apply IH. intros j. exact (H (S j)).
Qed.

Lemma map_filter_vis {B} (g : emitted -> B) (p : emitted -> bool) :
  (forall a b, vis a = vis b -> g a = g b /\ p a = p b) ->
  forall l l', map vis l = map vis l' -> map g (filter p l) = map g (filter p l').
Proof.
  intros Hgp. induction l as [|a r IH]; intros [|b r'] H; try discriminate; [reflexivity|].
  simpl in H. remember (vis a) as va eqn:Eva. remember (vis b) as vb eqn:Evb. injection H as Hab Hr. subst va vb.
  destruct (Hgp a b Hab) as [Hg Hp].
  simpl. rewrite Hp. destruct (p b); simpl; [rewrite Hg; f_equal|]; apply IH; exact Hr.
Qed.

Lemma vis_names prefix scope a b : vis a = vis b ->
  nm_c_name prefix scope a = nm_c_name prefix scope b /\ e_c a = e_c b.
Proof. unfold vis, nm_c_name. intros H. injection H as _ _ Hn Hf Ht _ Hc _. rewrite Hn, Hf, Ht, Hc. split; reflexivity. Qed.
Lemma vis_fnames scope a b : vis a = vis b ->
  nm_f_impl scope a = nm_f_impl scope b /\ e_f a = e_f b.
Proof. unfold vis, nm_f_impl. intros H. injection H as _ _ Hn Hf Ht _ _ Hc. rewrite Hn, Hf, Ht, Hc. split; reflexivity. Qed.

(* ---------------- function level ---------------- *)
Definition bare (f : fn) : Prop := f_ndef f = 0 /\ f_das f = [] /\ f_tmpl f = [] /\ f_generic f = [].

Definition em (i : nat) (f : fn) : emitted :=
  {| e_src := i; e_origin := Orig; e_name := f_name f; e_fs := opt_or (f_suffix f) []; e_fs_local := is_some (f_suffix f);
     e_ts := []; e_templ := false; e_c := true; e_f := true |}.

Fixpoint emfrom (k : nat) (fs : list fn) : list emitted :=
  match fs with [] => [] | f :: r => em k f :: emfrom (S k) r end.

Lemma expand_one_bare i f : bare f -> expand_one i f = [em i f].
Proof. intros (Hn & Hd & Ht & Hg). unfold expand_one, em. rewrite Hn, Hd, Ht. reflexivity. Qed.

Lemma expand_from_bare : forall fs k, Forall bare fs -> expand_from k fs = emfrom k fs.
Proof.
  induction fs as [|f r IH]; intros k H; [reflexivity|].
  inversion H as [|? ? Hf Hr]; subst. cbn [expand_from emfrom]. rewrite (expand_one_bare k f Hf), (IH (S k) Hr). reflexivity.
Qed.

Lemma emfrom_nth : forall fs k i f, nth_error fs i = Some f -> nth_error (emfrom k fs) i = Some (em (k + i) f).
Proof.
  induction fs as [|g r IH]; intros k i f H; [destruct i; discriminate|].
  destruct i; cbn [nth_error emfrom] in *.
  - injection H as ->. rewrite Nat.add_0_r. reflexivity.
  - rewrite (IH (S k) i f H). f_equal. f_equal. lia.
Qed.

Lemma emfrom_nth_inv : forall fs k i e, nth_error (emfrom k fs) i = Some e -> exists f, nth_error fs i = Some f /\ e = em (k + i) f.
Proof.
  induction fs as [|g r IH]; intros k i e H; [destruct i; discriminate|].
  destruct i; cbn [nth_error emfrom] in *.
  - injection H as <-. exists g. rewrite Nat.add_0_r. auto.
  - destruct (IH (S k) i e H) as (f & Hf & He). exists f. split; [exact Hf|]. rewrite He. f_equal. lia.
Qed.

Lemma emfrom_upd : forall fs k i f', i < List.length fs -> emfrom k (upd i f' fs) = upd i (em (k + i) f') (emfrom k fs).
Proof.
  induction fs as [|g r IH]; intros k i f' H; simpl in H; [lia|].
  destruct i.
  - rewrite upd_cons_0. cbn [emfrom]. rewrite upd_cons_0, Nat.add_0_r. reflexivity.
  - rewrite upd_cons_S. cbn [emfrom]. rewrite upd_cons_S. rewrite IH by lia. f_equal. f_equal. f_equal. lia.
Qed.

Definition same_name (n : ustr) (g : fn) : bool := ueqb (f_name g) n.

Lemma gs_emfrom : forall fs k i n, group_size n (firstn i (emfrom k fs)) = List.length (filter (same_name n) (firstn i fs)).
Proof.
  induction fs as [|g r IH]; intros k i n; [destruct i; reflexivity|].
  destruct i; [reflexivity|]. cbn [emfrom firstn]. unfold group_size in *. cbn [filter].
  unfold in_group at 1. cbn [em e_templ e_name negb andb]. unfold same_name at 1.
  destruct (ueqb (f_name g) n); cbn [List.length]; rewrite IH; reflexivity.
Qed.

Lemma gs_emfrom_all fs k n : group_size n (emfrom k fs) = List.length (filter (same_name n) fs).
Proof.
  pose proof (gs_emfrom fs k (List.length fs) n) as H. rewrite (firstn_all fs) in H.
  assert (L : List.length (emfrom k fs) = List.length fs).
  { clear H. revert k. induction fs as [|g r IH]; intros k; [reflexivity|]. cbn [emfrom List.length]. rewrite IH. reflexivity. }
  rewrite <- L, firstn_all in H. exact H.
Qed.

Lemma relabel_src l i e : e_src (relabel l i e) = e_src e.
Proof. unfold relabel. destruct (_ && _ && _); reflexivity. Qed.

Lemma expand_bare fs : Forall bare fs -> expand fs = number (emfrom 0 fs).
Proof.
  intros Hb. unfold expand. rewrite (expand_from_bare fs 0 Hb). apply flat_map_singleton.
  apply Forall_forall. intros e' Hin. apply In_nth_error in Hin. destruct Hin as (i & Hi).
  destruct (nth_error (emfrom 0 fs) i) as [e|] eqn:He.
  - rewrite (number_nth _ _ _ He) in Hi. injection Hi as <-.
    destruct (emfrom_nth_inv fs 0 i e He) as (f & Hf & ->).
    apply generic_one_plain. rewrite relabel_src. cbn [em e_src Nat.add]. exists f. split; [exact Hf|].
    rewrite Forall_forall in Hb. apply (Hb f (nth_error_In _ _ Hf)).
  - rewrite (number_nth_none _ _ He) in Hi. discriminate.
Qed.

Lemma in_firstn_l {A} (y : A) : forall i l, In y (firstn i l) -> In y l.
Proof. induction i; intros [|a l] H; simpl in *; try contradiction. destruct H; [left; assumption | right; auto]. Qed.
Lemma in_skipn_l {A} (y : A) : forall i l, In y (skipn i l) -> In y l.
Proof. induction i; intros l H; [exact H|]. destruct l; [destruct H|]. right. apply IHi. exact H. Qed.

Lemma Forall_upd {A} (P : A -> Prop) : forall l i x, Forall P l -> P x -> Forall P (upd i x l).
Proof.
  intros l i x Hl Hx. unfold upd. rewrite Forall_forall in Hl. apply Forall_app. split.
  - apply Forall_forall. intros y Hy. apply Hl. eapply in_firstn_l. exact Hy.
  - constructor; [exact Hx|]. apply Forall_forall. intros y Hy. apply Hl. eapply in_skipn_l. exact Hy.
Qed.

(* the user pins ONE member of an overload set with the suffix that spells the number of its own position *)
Definition pin_fn (fs : list fn) (i : nat) (f : fn) : fn :=
  {| f_name := f_name f; f_ndef := f_ndef f;
     f_suffix := Some (95%N :: decimal (Z.of_nat (List.length (filter (same_name (f_name f)) (firstn i fs)))));
     f_das := f_das f; f_tmpl := f_tmpl f; f_generic := f_generic f |}.

Theorem pinned_names_unchanged : forall prefix scope fscope fs i f,
  Forall bare fs -> nth_error fs i = Some f -> f_suffix f = None ->
  1 < List.length (filter (same_name (f_name f)) fs) ->
  c_names prefix scope (upd i (pin_fn fs i f) fs) = c_names prefix scope fs /\
  f_names fscope (upd i (pin_fn fs i f) fs) = f_names fscope fs.
Proof.
  intros prefix scope fscope fs i f Hb Hn Hs Hg.
  assert (Hi : i < List.length fs) by (apply nth_error_Some; rewrite Hn; discriminate).
  assert (Hbf : bare f) by (rewrite Forall_forall in Hb; apply (Hb f (nth_error_In _ _ Hn))).
  assert (Hb' : Forall bare (upd i (pin_fn fs i f) fs)) by (apply Forall_upd; [exact Hb | exact Hbf]).
  unfold c_names, f_names. rewrite (expand_bare _ Hb'), (expand_bare _ Hb).
  rewrite (emfrom_upd fs 0 i (pin_fn fs i f) Hi). cbn [Nat.add].
  set (L := emfrom 0 fs).
  assert (HL : nth_error L i = Some (em i f)) by (unfold L; rewrite (emfrom_nth fs 0 i f Hn); reflexivity).
  assert (E : em i (pin_fn fs i f) = pin_e L i (em i f)).
  { unfold em, pin_e, pin_fn, L. cbn. rewrite gs_emfrom. reflexivity. }
  rewrite E.
  assert (V : map vis (number (upd i (pin_e L i (em i f)) L)) = map vis (number L)).
  { apply map_ext_nth. apply number_upd_pin.
    - exact HL.
    - reflexivity.
    - cbn [em e_name]. unfold L. rewrite gs_emfrom_all. exact Hg.
    - cbn [em e_fs_local]. rewrite Hs. reflexivity. }
  split.
  - apply (map_filter_vis (nm_c_name prefix scope) e_c (vis_names prefix scope) _ _ V).
  - apply (map_filter_vis (nm_f_impl fscope) e_f (vis_fnames fscope) _ _ V).
Qed.

From Coq Require Import String.
Example pinned_example :
  let fs := [mkfn "g"%string 0 None; mkfn "g"%string 0 None; mkfn "g"%string 0 None] in
  match nth_error fs 1 with
  | Some f => c_names (cp "OVL_") [] (upd 1 (pin_fn fs 1 f) fs) = map cp ["OVL_g_0"; "OVL_g_1"; "OVL_g_2"]%string
              /\ f_suffix (pin_fn fs 1 f) = Some (cp "_1"%string)
  | None => False
  end.
Proof. vm_compute. split; reflexivity. Qed.
