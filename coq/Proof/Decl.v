(* Proof/Decl.v — facts about the declaration parser model (Model/Decl.v) and the expression parser. *)
From Coq Require Import List NArith ZArith Bool Arith String Lia.
From Shroud Require Import Base.Ustr Model.Splicer Model.Lexer Model.Expr Model.Decl.
Import ListNotations.

(* ---- no internal exception ---- *)
Definition nc {A} (r : result A) : Prop := forall e, r <> Crash e.

Lemma nc_ok {A} (a : A) : nc (Ok a). Proof. intros e; discriminate. Qed.
Lemma nc_rej {A} m : nc (@Reject A m). Proof. intros e; discriminate. Qed.
Lemma nc_oof {A} : nc (@OutOfFuel A). Proof. intros e; discriminate. Qed.
Lemma nc_perr {A} : nc (@perr A). Proof. intros e; discriminate. Qed.
Lemma nc_bind {A B} (r : result A) (f : A -> result B) : nc r -> (forall a, nc (f a)) -> nc (bind r f).
Proof. intros Hr Hf e. destruct r; simpl; try discriminate; [apply Hf | intro H; apply (Hr e0); congruence]. Qed.
Lemma nc_mustbe k ts : nc (mustbe k ts).
Proof. unfold mustbe; destruct ts; destruct (kind_eqb _ _); try apply nc_ok; apply nc_perr. Qed.

Ltac nc_step :=
  match goal with
  | |- nc (Ok _) => apply nc_ok
  | |- nc (Reject _) => apply nc_rej
  | |- nc perr => apply nc_perr
  | |- nc OutOfFuel => apply nc_oof
  | |- nc (mustbe _ _) => apply nc_mustbe
  | H : context [nc _] |- nc _ => solve [apply H]
  | |- nc (bind _ _) => apply nc_bind; [| intros ?]
  | |- nc (if ?b then _ else _) => destruct b
  | |- nc (match ?x with _ => _ end) => destruct x
  end.
Ltac nc_tac := repeat nc_step.

Lemma nc_expr : forall fuel,
  (forall mp ts, nc (p_expr fuel mp ts)) /\ (forall mp lhs ts, nc (p_loop fuel mp lhs ts)) /\
  (forall ts, nc (p_primary fuel ts)) /\ (forall ts acc, nc (p_args fuel ts acc)).
Proof.
  induction fuel as [|f IH]; [repeat split; intros; apply nc_oof|].
  destruct IH as (IH1 & IH2 & IH3 & IH4).
  repeat split; intros; cbn [p_expr p_loop p_primary p_args]; nc_tac.
Qed.

Lemma nc_parse_expression ts : nc (parse_expression ts).
Proof. apply nc_expr. Qed.

Ltac nc_fuel_ind fuel := induction fuel as [|f IH]; [intros; apply nc_oof|].

Lemma nc_collect_paren : forall fuel depth acc ts, nc (collect_paren fuel depth acc ts).
Proof. nc_fuel_ind fuel. intros; cbn [collect_paren]; nc_tac. Qed.

Lemma nc_p_attribute : forall fuel attrs ts, nc (p_attribute fuel attrs ts).
Proof.
  nc_fuel_ind fuel. intros; cbn [p_attribute].
  pose proof nc_collect_paren as Hc. nc_tac.
Qed.

Lemma nc_p_declarator : forall fuel ts, nc (p_declarator fuel ts).
Proof. nc_fuel_ind fuel. intros; cbn [p_declarator]; nc_tac. Qed.

Lemma nc_p_nested : forall fuel ns names ts, nc (p_nested fuel ns names ts).
Proof. nc_fuel_ind fuel. intros; cbn [p_nested]; nc_tac. Qed.

Lemma nc_get_canonical c s : nc (get_canonical c s).
Proof. unfold get_canonical; nc_tac. Qed.

Lemma nc_spec : forall fuel,
  (forall c found s ts, nc (p_specifier fuel c found s ts)) /\ (forall c s ts, nc (p_targs fuel c s ts)) /\
  (forall c ts, nc (p_decl_spec fuel c ts)).
Proof.
  induction fuel as [|f IH]; [repeat split; intros; apply nc_oof|].
  destruct IH as (IH1 & IH2 & IH3).
  pose proof nc_p_nested as Hn. pose proof nc_get_canonical as Hg.
  repeat split; intros; cbn [p_specifier p_targs p_decl_spec]; nc_tac.
Qed.

Lemma nc_p_arrays : forall fuel acc ts, nc (p_arrays fuel acc ts).
Proof. nc_fuel_ind fuel. intros; cbn [p_arrays]. pose proof nc_parse_expression as He. nc_tac. Qed.

Lemma nc_decl : forall fuel,
  (forall c ts, nc (p_declaration fuel c ts)) /\ (forall c ts acc, nc (p_params fuel c ts acc)).
Proof.
  induction fuel as [|f IH]; [repeat split; intros; apply nc_oof|].
  destruct IH as (IH1 & IH2).
  pose proof nc_spec as Hs. pose proof nc_get_canonical as Hg. pose proof nc_p_declarator as Hd.
  pose proof nc_p_arrays as Ha. pose proof nc_p_attribute as Hat.
  repeat split; intros; cbn [p_declaration p_params]; nc_tac.
Qed.

Lemma nc_p_declaration fuel c ts : nc (p_declaration fuel c ts).
Proof. apply nc_decl. Qed.

Lemma nc_p_struct_members : forall fuel c ts acc, nc (p_struct_members fuel c ts acc).
Proof. nc_fuel_ind fuel. intros; cbn [p_struct_members]. pose proof nc_p_declaration as Hd. nc_tac. Qed.

Lemma nc_p_template_params : forall fuel ts acc, nc (p_template_params fuel ts acc).
Proof. nc_fuel_ind fuel. intros; cbn [p_template_params]; nc_tac. Qed.

Lemma nc_p_class c ts : nc (p_class c ts).
Proof. unfold p_class. pose proof nc_p_nested as Hn. nc_tac. Qed.

Lemma nc_p_members : forall fuel ts acc, nc (p_members fuel ts acc).
Proof. nc_fuel_ind fuel. intros; cbn [p_members]. pose proof nc_parse_expression as He. nc_tac. Qed.

Lemma nc_parse_enum s : nc (parse_enum s).
Proof. unfold parse_enum. pose proof nc_p_members as Hm. nc_tac. Qed.

Lemma nc_p_stmt c ts : nc (p_stmt c ts).
Proof.
  unfold p_stmt.
  pose proof nc_p_class as Hc. pose proof nc_p_struct_members as Hs.
  pose proof nc_p_template_params as Ht. pose proof nc_p_declaration as Hd.
  nc_tac.
Qed.

Theorem parse_statement_no_crash : forall c s e, parse_statement c s <> Crash e.
Proof.
  intros c s. change (nc (parse_statement c s)). unfold parse_statement.
  pose proof nc_parse_enum as He. pose proof nc_p_stmt as Hs.
  nc_tac.
Qed.

Lemma bind_ok' {A B} (r : result A) (f : A -> result B) b : bind r f = Ok b -> exists a, r = Ok a /\ f a = Ok b.
Proof. destruct r; simpl; try discriminate. intros H; eexists; split; [reflexivity | exact H]. Qed.

(* acceptance means the statement parser stopped at the end of the text (after an optional semicolon):
   nothing after a complete statement is silently dropped *)
Theorem accepted_statement_consumes_all : forall c s st,
  peek KW_ENUM (tokenize s) = false -> parse_statement c s = Ok st ->
  exists rest y, p_stmt c (tokenize s) = Ok (st, rest) /\
                 mustbe EOF (if peek SEMICOLON rest then tl rest else rest) = Ok y.
Proof.
  intros c s st He H. unfold parse_statement in H. rewrite He in H.
  apply bind_ok' in H; destruct H as ([st' rest] & Hp & H).
  apply bind_ok' in H; destruct H as (y & Hm & Hs). cbn [fst snd] in *.
  inversion Hs; subst. exists rest, y. auto.
Qed.

(* and the end-of-text test only passes on an empty remainder or on an explicit EOF-kind token,
   which the lexer never produces from text (Lexer.next_token has no EOF case) *)
Lemma mustbe_eof_shape ts y : mustbe EOF ts = Ok y -> ts = [] \/ exists t r, ts = t :: r /\ tk t = EOF.
Proof.
  unfold mustbe. destruct ts as [|t r]; [left; reflexivity|].
  destruct (kind_eqb (tk t) EOF) eqn:E; [|discriminate].
  intros _. right. exists t, r. split; [reflexivity|]. destruct (tk t); try discriminate. reflexivity.
Qed.

(* the lexer never produces an EOF-kind token *)
Lemma single_not_eof c k : single c = Some k -> k <> EOF.
Proof.
  unfold single. repeat (destruct (_ =? _)%N; [intros H; inversion H; discriminate|]). discriminate.
Qed.
Lemma classify_not_eof v : classify_id v <> EOF.
Proof. unfold classify_id. repeat (destruct (mem_str _ _) || destruct (ueqb _ _)); discriminate. Qed.

Lemma next_token_not_eof s t r : next_token s = (Some t, r) -> tk t <> EOF.
Proof.
  unfold next_token. destruct (match_real s) as [[v r0]|]; [intros H; inversion H; discriminate|].
  destruct s as [|c s']; [discriminate|].
  destruct (is_dig c); [destruct (span is_dig (c :: s')); intros H; inversion H; discriminate|].
  destruct (if (c =? 34)%N then match_quoted 34%N (c :: s') else None) as [[v rest]|]; [intros H; inversion H; discriminate|].
  destruct (if (c =? 39)%N then match_quoted 39%N (c :: s') else None) as [[v rest]|]; [intros H; inversion H; discriminate|].
  destruct (single c) as [k|] eqn:Es; [intros H; inversion H; cbn; eapply single_not_eof; exact Es|].
  destruct (c =? 58)%N.
  { destruct s' as [|c2 r2]; [intros H; inversion H; discriminate|]. destruct (c2 =? 58)%N; intros H; inversion H; discriminate. }
  destruct (c =? 46)%N.
  { destruct s' as [|c2 [|c3 r3]]; try (intros H; inversion H; discriminate).
    destruct ((c2 =? 46)%N && (c3 =? 46)%N); intros H; inversion H; discriminate. }
  destruct (is_alpha_ c).
  { destruct (span is_alnum_ (c :: s')). intros H; inversion H; cbn. apply classify_not_eof. }
  destruct ((c =? 10)%N || (c =? 32)%N || (c =? 9)%N); intros H; inversion H; discriminate.
Qed.

Lemma lex_fuel_not_eof : forall fuel s, Forall (fun t => tk t <> EOF) (lex_fuel fuel s).
Proof.
  induction fuel as [|f IH]; intros s; cbn [lex_fuel]; [constructor|].
  destruct s as [|c s']; [constructor|].
  destruct (next_token (c :: s')) as [[t|] r] eqn:E; [|apply IH].
  constructor; [eapply next_token_not_eof; exact E | apply IH].
Qed.

Lemma tokenize_not_eof s : Forall (fun t => tk t <> EOF) (tokenize s).
Proof. apply lex_fuel_not_eof. Qed.
