(* Proof/Enum.v — the EnumNode value loop assigns every enumerator its C++ value (AST level). *)
From Coq Require Import List NArith ZArith Bool Arith String Lia.
From Shroud Require Import Base.Ustr Model.Splicer Model.Scope Model.Options Model.Lexer Model.Expr Model.Enum
     Proof.Splicer Proof.Options.
Import ListNotations.

(* ---------- syntactic classes ---------- *)
Definition canon (v : ustr) : bool :=
  all_digits v && match v with [] => false | [_] => true | c :: _ => negb (c =? 48)%N end.

Definition sign_op (op : ustr) : bool := is_op 45 op || is_op 43 op.
Definition bin_op (op : ustr) : bool := is_op 43 op || is_op 45 op || is_op 42 op || is_op 47 op.

Fixpoint simple (e : expr) : bool :=
  match e with
  | EIdent _ None => true
  | EIdent _ (Some _) => false
  | EConst v => canon v
  | EBin l op r => simple l && simple r && bin_op op
  | EUn op x => simple x && sign_op op
  | EParen x => simple x
  end.

Definition lit_form (e : expr) : bool :=
  match e with
  | EConst v => canon v
  | EUn op (EConst v) => canon v && sign_op op
  | _ => false
  end.

Fixpoint idents_in (e : expr) (names : list ustr) : bool :=
  match e with
  | EIdent n None => existsb (ueqb n) names
  | EIdent _ (Some _) => false
  | EConst _ => true
  | EBin l _ r => idents_in l names && idents_in r names
  | EUn _ x => idents_in x names
  | EParen x => idents_in x names
  end.

Definition wf_value (seen : list ustr) (e : expr) : bool :=
  lit_form e ||
  (match py_int (print_expr e) with None => true | Some _ => false end && simple e && idents_in e seen).

Fixpoint wf_members (seen : list ustr) (ms : list (ustr * option expr)) : bool :=
  match ms with
  | [] => true
  | (n, v) :: r =>
      negb (existsb (ueqb n) seen) &&
      match v with None => true | Some e => wf_value seen e end &&
      wf_members (n :: seen) r
  end.

(* ---------- renaming ---------- *)
Definition rn (sym : list (ustr * ustr)) (n : ustr) : ustr :=
  match sym_get n sym with Some v => v | None => n end.

Fixpoint rename (sym : list (ustr * ustr)) (e : expr) : expr :=
  match e with
  | EIdent n None => EIdent (rn sym n) None
  | EIdent n (Some a) => EIdent n (Some a)
  | EConst v => EConst v
  | EBin l op r => EBin (rename sym l) op (rename sym r)
  | EUn op x => EUn op (rename sym x)
  | EParen x => EParen (rename sym x)
  end.

Definition ren_env (sym : list (ustr * ustr)) (env : list (ustr * Z)) : list (ustr * Z) :=
  map (fun p => (rn sym (fst p), snd p)) env.

Definition wrap_un (e : expr) (t : ustr) : ustr :=
  match e with EUn _ _ => cp "(" ++ t ++ cp ")" | _ => t end.

Lemma print_bin l op r : print_expr (EBin l op r) = print_expr l ++ op ++ wrap_un r (print_expr r).
Proof. destruct r as [? [?|]| | | |]; reflexivity. Qed.
Lemma print_un op x : print_expr (EUn op x) = op ++ wrap_un x (print_expr x).
Proof. destruct x as [? [?|]| | | |]; reflexivity. Qed.
Lemma print_ident_bin sym l op r : print_ident sym (EBin l op r) = print_ident sym l ++ op ++ wrap_un r (print_ident sym r).
Proof. destruct r as [? [?|]| | | |]; reflexivity. Qed.
Lemma print_ident_un sym op x : print_ident sym (EUn op x) = op ++ wrap_un x (print_ident sym x).
Proof. destruct x as [? [?|]| | | |]; reflexivity. Qed.
Lemma wrap_un_rename sym r t : wrap_un (rename sym r) t = wrap_un r t.
Proof. destruct r as [? [?|]| | | |]; reflexivity. Qed.

Lemma print_ident_rename sym e : simple e = true -> print_ident sym e = print_expr (rename sym e).
Proof.
  induction e as [n [a|]|v|l IHl op r IHr|op x IHx|x IHx]; intros H; try discriminate; try reflexivity.
  - simpl in H. apply andb_true_iff in H. destruct H as [H _]. apply andb_true_iff in H. destruct H as [Hl Hr].
    cbn [rename]. rewrite print_ident_bin, print_bin, (IHl Hl), (IHr Hr), wrap_un_rename. reflexivity.
  - simpl in H. apply andb_true_iff in H. destruct H as [Hx _].
    cbn [rename]. rewrite print_ident_un, print_un, (IHx Hx), wrap_un_rename. reflexivity.
  - simpl in H. cbn [rename]. simpl. rewrite (IHx H). reflexivity.
Qed.

Lemma inj_from_nodup {A B} (f : A -> B) l : NoDup (map f l) ->
  forall a b, In a l -> In b l -> f a = f b -> a = b.
Proof.
  induction l as [|x r IH]; intros Hn a b Ha Hb E; [contradiction|].
  simpl in Hn. inversion Hn as [|? ? Hx Hr]; subst.
  destruct Ha as [->|Ha], Hb as [->|Hb]; try reflexivity.
  - exfalso. apply Hx. rewrite E. apply in_map. exact Hb.
  - exfalso. apply Hx. rewrite <- E. apply in_map. exact Ha.
  - apply IH; assumption.
Qed.

Lemma existsb_ueqb_In n l : existsb (ueqb n) l = true <-> In n l.
Proof.
  rewrite existsb_exists. split.
  - intros [x [Hx E]]. apply ueqb_eq in E. subst. exact Hx.
  - intros H. exists n. split; [exact H | apply ueqb_refl].
Qed.

Lemma env_get_rename sym names env n :
  NoDup (map (rn sym) names) -> In n names -> (forall k, In k (map fst env) -> In k names) ->
  env_get (rn sym n) (ren_env sym env) = env_get n env.
Proof.
  intros Hnd Hn Hk. induction env as [|[k z] r IH]; [reflexivity|]. simpl.
  assert (Hkin : In k names) by (apply Hk; left; reflexivity).
  destruct (ueqb n k) eqn:E.
  - apply ueqb_eq in E. subst k. rewrite ueqb_refl. reflexivity.
  - rewrite ueqb_neq.
    + apply IH. intros k' Hk'. apply Hk. right. exact Hk'.
    + intro Heq. apply (inj_from_nodup _ _ Hnd n k Hn Hkin) in Heq. subst k. rewrite ueqb_refl in E. discriminate.
Qed.

Lemma eval_rename lit sym names env e :
  NoDup (map (rn sym) names) -> (forall k, In k (map fst env) -> In k names) ->
  simple e = true -> idents_in e names = true ->
  eval_expr lit (ren_env sym env) (rename sym e) = eval_expr lit env e.
Proof.
  intros Hnd Hk. induction e as [n [a|]|v|l IHl op r IHr|op x IHx|x IHx]; simpl; intros Hs Hi; try discriminate; try reflexivity.
  - apply env_get_rename with (names := names); try assumption. apply existsb_ueqb_In. exact Hi.
  - apply andb_true_iff in Hs. destruct Hs as [Hs _]. apply andb_true_iff in Hs. destruct Hs as [Hl Hr].
    apply andb_true_iff in Hi. destruct Hi as [Hil Hir]. rewrite (IHl Hl Hil), (IHr Hr Hir). reflexivity.
  - apply andb_true_iff in Hs. destruct Hs as [Hx _]. rewrite (IHx Hx Hi). reflexivity.
  - apply IHx; assumption.
Qed.

(* an environment extended by a name the expression does not mention *)
Lemma eval_weaken lit env e n z : idents_in e (map fst env) = true -> ~ In n (map fst env) ->
  eval_expr lit ((n, z) :: env) e = eval_expr lit env e.
Proof.
  intros Hi Hn. induction e as [m [a|]|v|l IHl op r IHr|op x IHx|x IHx]; simpl in *; try discriminate; try reflexivity.
  - rewrite ueqb_neq; [reflexivity|]. intro E. subst m. apply Hn. apply existsb_ueqb_In. exact Hi.
  - apply andb_true_iff in Hi. destruct Hi as [Hl Hr]. rewrite (IHl Hl), (IHr Hr). reflexivity.
  - rewrite (IHx Hi). reflexivity.
  - apply IHx. exact Hi.
Qed.

Lemma idents_in_mono e a b : (forall k, In k a -> In k b) -> idents_in e a = true -> idents_in e b = true.
Proof.
  intros H. induction e as [m [x|]|v|l IHl op r IHr|op x IHx|x IHx]; simpl; intros Hi; try discriminate; try reflexivity.
  - apply existsb_ueqb_In. apply H. apply existsb_ueqb_In. exact Hi.
  - apply andb_true_iff in Hi. destruct Hi as [Hl Hr]. rewrite (IHl Hl), (IHr Hr). reflexivity.
  - apply IHx. exact Hi.
  - apply IHx. exact Hi.
Qed.

(* ---------- literals ---------- *)
Lemma digits_val_parse ds : forall acc, all_digits ds = true ->
  digits_val 10 ds acc = Some (parse_from acc ds).
Proof.
  induction ds as [|c r IH]; intros acc H; [reflexivity|].
  simpl in H. apply andb_true_iff in H. destruct H as [Hc Hr].
  cbn [digits_val]. unfold is_dig. unfold is_digit in Hc. rewrite Hc.
  assert (Hlt : (c - 48 <? 10)%N = true).
  { apply andb_true_iff in Hc. destruct Hc as [H1 H2]. apply N.leb_le in H1. apply N.leb_le in H2. apply N.ltb_lt. lia. }
  rewrite Hlt. cbn [andb]. rewrite IH by exact Hr. rewrite parse_from_cons. f_equal. f_equal. lia.
Qed.

Lemma f_literal_canon v : all_digits v = true -> f_literal v = Some (Z.of_N (parse_from 0 v)).
Proof. intros H. unfold f_literal. rewrite digits_val_parse by exact H. reflexivity. Qed.

Lemma c_literal_canon v : canon v = true -> c_literal v = Some (Z.of_N (parse_from 0 v)).
Proof.
  unfold canon. intros H. apply andb_true_iff in H. destruct H as [Ha Hz].
  destruct v as [|c [|c2 r]]; [discriminate| |].
  - unfold c_literal. rewrite digits_val_parse by exact Ha. reflexivity.
  - unfold c_literal. apply negb_true_iff in Hz. rewrite Hz. rewrite digits_val_parse by exact Ha. reflexivity.
Qed.

Lemma canon_nonempty v : canon v = true -> all_digits v = true /\ v <> [].
Proof.
  unfold canon. intros H. apply andb_true_iff in H. destruct H as [Ha Hz]. split; [exact Ha|].
  destruct v; [discriminate | discriminate].
Qed.

Lemma simple_lit_agree env e : simple e = true -> eval_expr f_literal env e = eval_expr c_literal env e.
Proof.
  induction e as [m [x|]|v|l IHl op r IHr|op x IHx|x IHx]; simpl; intros H; try discriminate; try reflexivity.
  - rewrite c_literal_canon by exact H. apply f_literal_canon. apply canon_nonempty. exact H.
  - apply andb_true_iff in H. destruct H as [H _]. apply andb_true_iff in H. destruct H as [Hl Hr].
    rewrite (IHl Hl), (IHr Hr). reflexivity.
  - apply andb_true_iff in H. destruct H as [Hx _]. rewrite (IHx Hx). reflexivity.
  - apply IHx. exact H.
Qed.

Lemma is_op_eq c op : is_op c op = true -> op = [c].
Proof. destruct op as [|x [|y r]]; simpl; try discriminate. intros H. apply N.eqb_eq in H. subst. reflexivity. Qed.

(* a literal form: Python's int() accepts the printed text and returns the C++ value *)
Lemma lit_form_int env e : lit_form e = true ->
  exists z, py_int (print_expr e) = Some z /\ eval_expr c_literal env e = Some z /\ simple e = true /\
            (forall names, idents_in e names = true).
Proof.
  destruct e as [n a|v|l op r|op x|x]; simpl; try discriminate.
  - intros H. destruct (canon_nonempty _ H) as [Ha Hne].
    exists (Z.of_N (parse_from 0 v)). repeat split; [apply py_int_digits; assumption | apply c_literal_canon; exact H | exact H].
  - destruct x as [n a|v|l op2 r|op2 x|x]; try discriminate.
    intros H. apply andb_true_iff in H. destruct H as [Hc Hs].
    destruct (canon_nonempty _ Hc) as [Ha Hne]. pose proof Hs as Hs0. unfold sign_op in Hs. apply orb_true_iff in Hs.
    cbn [eval_expr print_expr simple idents_in]. rewrite (c_literal_canon _ Hc), Hc, Hs0.
    destruct Hs as [Hs|Hs].
    + pose proof (is_op_eq _ _ Hs) as ->. exists (- Z.of_N (parse_from 0 v))%Z.
      repeat split. apply py_int_neg_digits; assumption.
    + pose proof (is_op_eq _ _ Hs) as ->. exists (Z.of_N (parse_from 0 v)).
      repeat split. apply py_int_pos_digits; assumption.
Qed.

(* ---------- what it means for the emitted values to agree with C++ ---------- *)
Inductive agree (csym fsym : list (ustr * ustr)) : list (ustr * Z) -> Z -> list member_out -> list (ustr * Z) -> Prop :=
| ag_nil env nx : agree csym fsym env nx [] []
| ag_cons env nx o outs n z vals :
    mo_name o = n ->
    (match mo_cvalue o with
     | Some t => exists ce, t = print_expr ce /\ eval_expr c_literal (ren_env csym env) ce = Some z
     | None => z = nx        (* no text: the C compiler assigns previous + 1 (0 for the first) *)
     end) ->
    (exists fe, mo_fvalue o = print_expr fe /\ eval_expr f_literal (ren_env fsym env) fe = Some z) ->
    agree csym fsym ((n, z) :: env) (z + 1) outs vals ->
    agree csym fsym env nx (o :: outs) ((n, z) :: vals).

(* loop invariant *)
Definition Inv (csym fsym : list (ustr * ustr)) (st : estate) (env : list (ustr * Z)) (nx : Z) : Prop :=
  (0 <= nx \/ True)%Z /\
  ((is_int st = true /\ cvalue st = VI nx /\ fvalue st = VI nx) \/
   (is_int st = false /\ exists e0 zb,
      simple e0 = true /\ idents_in e0 (map fst env) = true /\ eval_expr c_literal env e0 = Some zb /\
      cbase st = print_expr (rename csym e0) /\ fbase st = print_expr (rename fsym e0) /\
      (1 <= incr st)%Z /\ nx = (zb + incr st)%Z /\
      cvalue st = VT (plus_text (cbase st) (incr st)) /\ fvalue st = VT (plus_text (fbase st) (incr st)))).

Lemma decimal_expr_value lit env k : (0 <= k)%Z -> (lit = c_literal \/ lit = f_literal) ->
  eval_expr lit env (EConst (decimal k)) = Some k.
Proof.
  intros Hk Hl. destruct (decimal_nonneg k Hk) as [Ha [Hne Hv]]. simpl.
  destruct Hl as [-> | ->].
  - destruct k as [|p|p]; [reflexivity | | lia].
    (* decimal of a positive number has no leading zero; use the decimal reading through digits_val directly *)
    unfold c_literal. unfold decimal in *.
    set (ds := pos_digits (S (Pos.to_nat p)) (N.pos p) []) in *.
    destruct ds as [|c [|c2 r]] eqn:E; [contradiction| |].
    + rewrite digits_val_parse by exact Ha. rewrite Hv. reflexivity.
    + destruct (c =? 48)%N eqn:E0.
      * (* leading zero would make the value smaller than its digit count allows: exclude by computation on value *)
        exfalso. apply N.eqb_eq in E0. subst c.
        (* leading digit of pos_digits is never 0 *)
        assert (Hlead : forall f n acc, (N.to_nat n < f)%nat -> n <> 0%N ->
                  match pos_digits f n acc with d :: _ => d <> 48%N | [] => False end).
        { clear. induction f as [|f IH]; intros n acc Hf Hn; [lia|]. cbn [pos_digits].
          destruct (n / 10 =? 0)%N eqn:Eq.
          - apply N.eqb_eq in Eq. unfold N_digit. intro H48.
            pose proof (N.div_mod n 10 ltac:(discriminate)) as DM.
            set (q := (n / 10)%N) in *. set (m := (n mod 10)%N) in *. clearbody q m. lia.
          - apply N.eqb_neq in Eq. apply IH; [|exact Eq].
            assert (n / 10 < n)%N by (apply N.div_lt; lia). lia. }
        specialize (Hlead (S (Pos.to_nat p)) (N.pos p) [] ltac:(simpl; lia) ltac:(discriminate)).
        fold ds in Hlead. rewrite E in Hlead. apply Hlead. reflexivity.
      * rewrite digits_val_parse by exact Ha. rewrite Hv. reflexivity.
  - rewrite f_literal_canon by exact Ha. rewrite Hv. f_equal. lia.
Qed.

Definition int_expr (z : Z) : expr :=
  match z with
  | Zneg p => EUn [45%N] (EConst (decimal (Zpos p)))
  | _ => EConst (decimal z)
  end.

Lemma int_expr_print z : print_expr (int_expr z) = decimal z.
Proof. destruct z; reflexivity. Qed.

Lemma int_expr_value lit env z : (lit = c_literal \/ lit = f_literal) -> eval_expr lit env (int_expr z) = Some z.
Proof.
  intros Hl. destruct z as [|p|p]; cbn [int_expr].
  - apply decimal_expr_value; [lia | exact Hl].
  - apply decimal_expr_value; [lia | exact Hl].
  - cbn [eval_expr]. pose proof (decimal_expr_value lit env (Zpos p) ltac:(lia) Hl) as H.
    cbn [eval_expr] in H. rewrite H. reflexivity.
Qed.

Lemma plus_text_print B k : plus_text (print_expr B) k = print_expr (EBin B (cp "+") (EConst (decimal k))).
Proof. reflexivity. Qed.

Lemma eval_plus lit env B zb k : (0 <= k)%Z -> (lit = c_literal \/ lit = f_literal) ->
  eval_expr lit env B = Some zb ->
  eval_expr lit env (EBin B (cp "+") (EConst (decimal k))) = Some (zb + k)%Z.
Proof.
  intros Hk Hl HB. pose proof (decimal_expr_value lit env k Hk Hl) as Hd.
  cbn [eval_expr] in *. rewrite HB, Hd. reflexivity.
Qed.

Lemma nodup_move {A B} (f : A -> B) a x b : NoDup (map f (a ++ x :: b)) -> NoDup (map f ((x :: a) ++ b)).
Proof.
  intros H. rewrite map_app in H. simpl in H. apply NoDup_remove in H. destruct H as [H1 H2].
  simpl. constructor; rewrite map_app; assumption.
Qed.

Section Main.
Variables csym fsym : list (ustr * ustr).

(* one iteration *)
Lemma estep_ok names env nx st n v z st' o :
  NoDup (map (rn csym) names) -> NoDup (map (rn fsym) names) ->
  (forall k, In k (map fst env) -> In k names) ->
  ~ In n (map fst env) ->
  match v with None => True | Some e => wf_value (map fst env) e = true end ->
  (match v with Some e => eval_expr c_literal env e | None => Some nx end) = Some z ->
  Inv csym fsym st env nx ->
  estep csym fsym st (n, v) = (st', o) ->
  mo_name o = n /\
  (match mo_cvalue o with
   | Some t => exists ce, t = print_expr ce /\ eval_expr c_literal (ren_env csym env) ce = Some z
   | None => z = nx end) /\
  (exists fe, mo_fvalue o = print_expr fe /\ eval_expr f_literal (ren_env fsym env) fe = Some z) /\
  Inv csym fsym st' ((n, z) :: env) (z + 1).
Proof.
  intros Hnc Hnf Hkeys Hfresh Hwf Ez HI Est.
  unfold estep in Est. cbn [fst snd] in Est.
  destruct v as [e|].
  - unfold wf_value in Hwf. apply orb_true_iff in Hwf. destruct Hwf as [Hlit|Hcomp].
    + (* literal form: Python int() path *)
      destruct (lit_form_int env e Hlit) as [z' [Hpi [Hev _]]].
      rewrite Hev in Ez. injection Ez as ->. rewrite Hpi in Est. cbn in Est. injection Est as <- <-.
      cbn. repeat split.
      * exists (int_expr z). split; [symmetry; apply int_expr_print | apply int_expr_value; left; reflexivity].
      * exists (int_expr z). split; [symmetry; apply int_expr_print | apply int_expr_value; right; reflexivity].
      * right; exact I.
      * left. repeat split; reflexivity.
    + (* composite expression: text path *)
      apply andb_true_iff in Hcomp. destruct Hcomp as [Hcomp Hids].
      apply andb_true_iff in Hcomp. destruct Hcomp as [Hpi Hsimple].
      destruct (py_int (print_expr e)) eqn:Epi; [discriminate|].
      cbn in Est. injection Est as <- <-. cbn.
      assert (Hids' : idents_in e names = true) by (eapply idents_in_mono; [exact Hkeys | exact Hids]).
      repeat split.
      * exists (rename csym e). split; [apply print_ident_rename; exact Hsimple|].
        rewrite (eval_rename c_literal csym names env e Hnc Hkeys Hsimple Hids'). exact Ez.
      * exists (rename fsym e). split; [apply print_ident_rename; exact Hsimple|].
        rewrite (eval_rename f_literal fsym names env e Hnf Hkeys Hsimple Hids').
        rewrite simple_lit_agree by exact Hsimple. exact Ez.
      * right; exact I.
      * right. split; [reflexivity|]. exists e, z.
        repeat split; try reflexivity; try lia; try exact Hsimple; try (apply print_ident_rename; exact Hsimple).
        all: try match goal with
          | |- idents_in _ _ = true => eapply idents_in_mono; [|exact Hids]; intros k Hk; right; exact Hk
          | |- eval_expr _ _ _ = _ => rewrite eval_weaken by assumption; exact Ez
          end.
  - (* implicit member *)
    injection Ez as <-. destruct HI as [_ [[Hint [Hc Hf]]|[Hint [e0 [zb [Hs [Hi [He [Hcb [Hfb [Hk [Hnx [Hc Hf]]]]]]]]]]]]].
    + rewrite Hint, Hc in Est. cbn in Est. rewrite Hf in Est. injection Est as <- <-. cbn. repeat split.
      * exists (int_expr nx). split; [symmetry; apply int_expr_print | apply int_expr_value; right; reflexivity].
      * right; exact I.
      * left. repeat split; reflexivity.
    + rewrite Hint in Est. injection Est as <- <-. cbn. rewrite Hf, Hfb.
      assert (Hi' : idents_in e0 names = true) by (eapply idents_in_mono; [exact Hkeys | exact Hi]).
      repeat split.
      * exists (EBin (rename fsym e0) (cp "+") (EConst (decimal (incr st)))). split; [apply plus_text_print|].
        rewrite Hnx. apply eval_plus; [lia | right; reflexivity|].
        rewrite (eval_rename f_literal fsym names env e0 Hnf Hkeys Hs Hi').
        rewrite simple_lit_agree by exact Hs. exact He.
      * right; exact I.
      * right. split; [reflexivity|]. exists e0, zb. cbn.
        repeat split; try assumption; try reflexivity; try lia.
        all: try match goal with
          | |- idents_in _ _ = true => eapply idents_in_mono; [|exact Hi]; intros k Hk0; right; exact Hk0
          | |- eval_expr _ _ _ = _ => rewrite eval_weaken by assumption; exact He
          end.
Qed.

Lemma derive_agree : forall ms env nx st vals,
  NoDup (map (rn csym) (map fst env ++ map fst ms)) -> NoDup (map (rn fsym) (map fst env ++ map fst ms)) ->
  wf_members (map fst env) ms = true ->
  cxx_values_from env nx ms = Some vals ->
  Inv csym fsym st env nx ->
  agree csym fsym env nx (derive_from csym fsym st ms) vals.
Proof.
  induction ms as [|[n v] r IH]; intros env nx st vals Hnc Hnf Hwf Hcxx HI.
  - simpl in Hcxx. injection Hcxx as <-. constructor.
  - cbn [wf_members] in Hwf. apply andb_true_iff in Hwf. destruct Hwf as [Hwf Hr].
    apply andb_true_iff in Hwf. destruct Hwf as [Hfresh Hv]. apply negb_true_iff in Hfresh.
    assert (Hn_notin : ~ In n (map fst env)).
    { intro Hin. apply existsb_ueqb_In in Hin. congruence. }
    cbn [cxx_values_from] in Hcxx.
    destruct (match v with Some e => eval_expr c_literal env e | None => Some nx end) as [z|] eqn:Ez; [|discriminate].
    destruct (cxx_values_from ((n, z) :: env) (z + 1) r) as [vals'|] eqn:Er; [|discriminate].
    simpl in Hcxx. injection Hcxx as <-.
    cbn [derive_from]. destruct (estep csym fsym st (n, v)) as [st' o] eqn:Est.
    destruct (estep_ok (map fst env ++ map fst ((n, v) :: r)) env nx st n v z st' o Hnc Hnf) as [H1 [H2 [H3 H4]]]; try assumption.
    + intros k Hk. apply in_or_app. left. exact Hk.
    + destruct v; [exact Hv | exact I].
    + econstructor; try eassumption.
      apply IH; try assumption.
      * apply (nodup_move (rn csym) (map fst env) n (map fst r)). exact Hnc.
      * apply (nodup_move (rn fsym) (map fst env) n (map fst r)). exact Hnf.
Qed.

Theorem enum_values_agree ms vals :
  NoDup (map (rn csym) (map fst ms)) -> NoDup (map (rn fsym) (map fst ms)) ->
  wf_members [] ms = true ->
  cxx_values ms = Some vals ->
  agree csym fsym [] 0 (derive csym fsym ms) vals.
Proof.
  intros Hc Hf Hwf Hv. unfold derive. apply derive_agree; try assumption.
  split; [right; exact I|]. left. repeat split; reflexivity.
Qed.
End Main.
