From Coq Require Import List NArith Bool Arith Lia.
From Shroud Require Import Model.LuaDispatch.
Import ListNotations.

(* ---------- every call variation supplies a prefix of its overload's parameters ---------- *)
Lemma calls_of_prefix idx nres ps : forall seen c, In c (calls_of idx nres seen ps) ->
  c_fun c = idx /\ c_nres c = nres /\ exists k, c_in c = seen ++ firstn k ps /\ k <= length ps /\
  (k < length ps -> exists p, nth_error ps k = Some p /\ p_default p = true).
Proof.
  induction ps as [|p r IH]; intros seen c H; simpl in H.
  - destruct H as [<-|[]]. simpl. repeat split. exists 0. rewrite app_nil_r. repeat split; simpl; lia.
  - apply in_app_or in H. destruct H as [H|H].
    + destruct (p_default p) eqn:E; [|contradiction]. destruct H as [<-|[]]. simpl. repeat split.
      exists 0. simpl. rewrite app_nil_r. repeat split; try lia. intros _. exists p. split; [reflexivity | exact E].
    + destruct (IH _ _ H) as [H1 [H2 [k [H3 [H4 H5]]]]]. repeat split; try assumption.
      exists (S k). simpl. rewrite <- app_assoc in H3. simpl in H3. repeat split; [exact H3 | lia|].
      intros Hk. apply H5. lia.
Qed.

Lemma all_calls_from_spec nres ovs : forall idx c, In c (all_calls_from nres idx ovs) ->
  exists f, nth_error ovs (c_fun c - idx) = Some f /\ idx <= c_fun c /\ c_nres c = nres /\
            exists k, c_in c = firstn k (f_params f) /\ k <= length (f_params f) /\
            (k < length (f_params f) -> exists p, nth_error (f_params f) k = Some p /\ p_default p = true).
Proof.
  induction ovs as [|f r IH]; intros idx c H; simpl in H; [contradiction|].
  apply in_app_or in H. destruct H as [H|H].
  - destruct (calls_of_prefix _ _ _ _ _ H) as [H1 [H2 [k [H3 [H4 H5]]]]].
    exists f. rewrite H1, Nat.sub_diag. simpl. repeat split; try lia; try assumption.
    exists k. repeat split; assumption.
  - destruct (IH _ _ H) as [g [H1 [H2 H3]]]. exists g. split; [|split; [lia | exact H3]].
    replace (c_fun c - idx) with (S (c_fun c - S idx)) by lia. exact H1.
Qed.

(* a call variation is the overload c_fun with its first k parameters supplied; the rest have defaults
   (the omitted one right after the prefix is defaulted) *)
Lemma all_calls_spec ovs c : In c (all_calls ovs) ->
  exists f, nth_error ovs (c_fun c) = Some f /\
            exists k, c_in c = firstn k (f_params f) /\ k <= length (f_params f) /\
            (k < length (f_params f) -> exists p, nth_error (f_params f) k = Some p /\ p_default p = true).
Proof.
  unfold all_calls. intros H. destruct (all_calls_from_spec _ _ _ _ H) as [f [H1 [_ [_ H3]]]].
  exists f. rewrite Nat.sub_0_r in H1. split; assumption.
Qed.

(* ---------- dispatch ---------- *)
Definition multi (ovs : list lfun) : Prop := match all_calls ovs with [_] => False | _ => True end.

Lemma dispatch_multi lay ovs stack : multi ovs ->
  dispatch lay ovs stack =
  (let calls := all_calls ovs in
   let nargs := length stack - count_off lay in
   let cands := filter (fun c => Nat.eqb (length (c_in c)) nargs) calls in
   match cands with
   | [] => LError
   | _ => if Nat.eqb nargs 0
          then LCalls (map (fun c => (c, [])) cands) (c_nres (last cands {| c_fun := 0; c_in := []; c_nres := 0 |}))
          else match find (fun c => types_match lay stack 0 (c_in c)) cands with
               | Some c => LCalls [(c, idxs lay (length (c_in c)))] (c_nres c)
               | None => LError
               end
   end).
Proof.
  unfold multi, dispatch. destruct (all_calls ovs) as [|c [|c2 r]]; intros H; try contradiction; reflexivity.
Qed.

(* soundness: a selected call has exactly the supplied number of arguments, its parameter tags equal
   the stack tags at the checked slots, and it is one of the variations *)
Lemma select_sound lay ovs stack c ix nres : multi ovs -> length stack - count_off lay <> 0 ->
  dispatch lay ovs stack = LCalls [(c, ix)] nres ->
  In c (all_calls ovs) /\ length (c_in c) = length stack - count_off lay /\
  types_match lay stack 0 (c_in c) = true /\ ix = idxs lay (length (c_in c)) /\ nres = c_nres c.
Proof.
  intros Hm Hn. rewrite dispatch_multi by exact Hm. cbv zeta.
  set (cands := filter _ _). destruct cands as [|c0 cs] eqn:Ec; [discriminate|].
  destruct (Nat.eqb_spec (length stack - count_off lay) 0) as [E|_]; [contradiction|].
  destruct (find _ (c0 :: cs)) as [c'|] eqn:Ef; [|discriminate].
  intros H. injection H as <- <- <-.
  apply find_some in Ef. destruct Ef as [Hin Htm]. rewrite <- Ec in Hin. unfold cands in Hin.
  apply filter_In in Hin. destruct Hin as [Hin Hlen]. apply Nat.eqb_eq in Hlen.
  repeat split; assumption.
Qed.

(* completeness: when no variation with the right count has matching tags, a Lua error is raised;
   otherwise the FIRST matching variation (declaration order) is the one selected *)
Lemma select_none lay ovs stack : multi ovs ->
  (forall c, In c (all_calls ovs) -> length (c_in c) = length stack - count_off lay ->
             types_match lay stack 0 (c_in c) = false) ->
  length stack - count_off lay <> 0 ->
  dispatch lay ovs stack = LError.
Proof.
  intros Hm Hnone Hn. rewrite dispatch_multi by exact Hm. cbv zeta.
  set (cands := filter _ _). destruct cands as [|c0 cs] eqn:Ec; [reflexivity|].
  destruct (Nat.eqb_spec (length stack - count_off lay) 0) as [E|_]; [contradiction|].
  destruct (find _ (c0 :: cs)) as [c'|] eqn:Ef; [|reflexivity].
  apply find_some in Ef. destruct Ef as [Hin Htm]. rewrite <- Ec in Hin. unfold cands in Hin.
  apply filter_In in Hin. destruct Hin as [Hin Hlen]. apply Nat.eqb_eq in Hlen.
  rewrite (Hnone _ Hin Hlen) in Htm. discriminate.
Qed.

Lemma find_first {A} (p : A -> bool) l x : find p l = Some x ->
  exists a b, l = a ++ x :: b /\ forallb (fun y => negb (p y)) a = true.
Proof.
  induction l as [|y r IH]; simpl; [discriminate|]. destruct (p y) eqn:E.
  - intros H. injection H as <-. exists [], r. split; reflexivity.
  - intros H. destruct (IH H) as [a [b [H1 H2]]]. exists (y :: a), b. split; [simpl; congruence|]. simpl. rewrite E. exact H2.
Qed.

Lemma select_first lay ovs stack c ix nres : multi ovs -> length stack - count_off lay <> 0 ->
  dispatch lay ovs stack = LCalls [(c, ix)] nres ->
  exists before after,
    filter (fun c => Nat.eqb (length (c_in c)) (length stack - count_off lay)) (all_calls ovs) = before ++ c :: after /\
    forallb (fun y => negb (types_match lay stack 0 (c_in y))) before = true.
Proof.
  intros Hm Hn. rewrite dispatch_multi by exact Hm. cbv zeta.
  set (cands := filter _ _). destruct cands as [|c0 cs] eqn:Ec; [discriminate|].
  destruct (Nat.eqb_spec (length stack - count_off lay) 0) as [E|_]; [contradiction|].
  destruct (find _ (c0 :: cs)) as [c'|] eqn:Ef; [|discriminate].
  intros H. injection H as <- <- <-. apply find_first in Ef. exact Ef.
Qed.

(* a wrong argument count is always an error for dispatching wrappers *)
Lemma count_mismatch_error lay ovs stack : multi ovs ->
  (forall c, In c (all_calls ovs) -> length (c_in c) <> length stack - count_off lay) ->
  dispatch lay ovs stack = LError.
Proof.
  intros Hm H. rewrite dispatch_multi by exact Hm. cbv zeta.
  set (cands := filter _ _). destruct cands as [|c0 cs] eqn:Ec; [reflexivity|].
  exfalso. assert (Hin : In c0 (c0 :: cs)) by (left; reflexivity). rewrite <- Ec in Hin. unfold cands in Hin.
  apply filter_In in Hin. destruct Hin as [Hin Hlen]. apply Nat.eqb_eq in Hlen. exact (H _ Hin Hlen).
Qed.

(* ---------- values: the slot that is type-checked is the slot that is read ---------- *)
Definition consistent (lay : layout) : Prop := first_arg lay = S (type_off lay) /\ count_off lay = type_off lay.

Lemma idxs_nth lay n k : k < n -> nth_error (idxs lay n) k = Some (first_arg lay + k).
Proof.
  intros H. unfold idxs. rewrite nth_error_map, nth_error_nth' with (d := 0) by (rewrite seq_length; exact H).
  rewrite seq_nth by exact H. reflexivity.
Qed.

Lemma types_match_nth lay stack : forall ps k0 k p, types_match lay stack k0 ps = true ->
  nth_error ps k = Some p -> nth_error stack (type_off lay + k0 + k) = Some (p_tag p).
Proof.
  induction ps as [|q r IH]; intros k0 k p H Hn; [destruct k; discriminate|].
  simpl in H. destruct (nth_error stack (type_off lay + k0)) as [t|] eqn:Et; [|discriminate].
  apply andb_true_iff in H. destruct H as [H1 H2]. destruct k as [|k].
  - simpl in Hn. injection Hn as <-. rewrite Nat.add_0_r, Et. f_equal.
    destruct t, (p_tag q); try discriminate; reflexivity.
  - simpl in Hn. replace (type_off lay + k0 + S k) with (type_off lay + S k0 + k) by lia. apply IH; assumption.
Qed.

(* under a consistent layout: argument k of the selected call is read from 1-based stack index
   first_arg + k, i.e. 0-based slot type_off + k, whose tag was checked to be the parameter's tag;
   with the object (methods) occupying the slots before it *)
Lemma values_from_checked_slots lay ovs stack c ix nres k p : consistent lay -> multi ovs ->
  length stack - count_off lay <> 0 ->
  dispatch lay ovs stack = LCalls [(c, ix)] nres ->
  nth_error (c_in c) k = Some p ->
  exists i, nth_error ix k = Some i /\ i = first_arg lay + k /\
            nth_error stack (i - 1) = Some (p_tag p) /\ i - 1 = type_off lay + k.
Proof.
  intros [Hc1 Hc2] Hm Hn Hd Hp. destruct (select_sound _ _ _ _ _ _ Hm Hn Hd) as [_ [Hlen [Htm [Hix _]]]].
  assert (Hk : k < length (c_in c)) by (apply nth_error_Some; congruence).
  exists (first_arg lay + k). subst ix. rewrite idxs_nth by exact Hk. repeat split; try lia.
  pose proof (types_match_nth lay stack _ 0 k p Htm Hp) as H. rewrite Nat.add_0_r in H.
  replace (first_arg lay + k - 1) with (type_off lay + k) by lia. exact H.
Qed.

Lemma lay_function_consistent : consistent lay_function. Proof. split; reflexivity. Qed.
Lemma lay_method_consistent : consistent lay_method. Proof. split; reflexivity. Qed.

(* ---------- results ---------- *)
Lemma nres_is_first_overload ovs c f0 r : ovs = f0 :: r -> In c (all_calls ovs) ->
  c_nres c = if f_result f0 then 1 else 0.
Proof.
  intros -> H. unfold all_calls in H. destruct (all_calls_from_spec _ _ _ _ H) as [_ [_ [_ [Hn _]]]]. exact Hn.
Qed.
