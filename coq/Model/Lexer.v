(* Model/Lexer.v — executable model of shroud/declast.py tokenize().
   The token alternation order of token_specification is followed (first alternative that
   matches at a position wins; inside an alternative the regular expression is greedy).
   ASCII only: \d is modelled as 0-9 (Python's \d also accepts other Unicode decimal digits). *)
From Coq Require Import List NArith Bool Arith String.
From Shroud Require Import Base.Ustr Model.Splicer.
Import ListNotations.

Inductive tkind :=
| REAL | INTEGER | DQUOTE | SQUOTE | LPAREN | RPAREN | LCURLY | RCURLY | LBRACKET | RBRACKET
| STAR | EQUALS | REF | PLUS | MINUS | SLASH | COMMA | SEMICOLON | LT | GT | TILDE | NAMESPACE
| COLON | VARARG | ID | OTHER
| TYPE_SPECIFIER | TYPE_QUALIFIER | STORAGE_CLASS
| KW_CLASS | KW_ENUM | KW_NAMESPACE | KW_STRUCT | KW_TEMPLATE | KW_TYPENAME | KW_PUBLIC | KW_PRIVATE | KW_PROTECTED
| EOF.

Record tok := { tk : tkind; tv : ustr }.

Definition is_dig (c : N) : bool := (48 <=? c)%N && (c <=? 57)%N.
Definition is_alpha_ (c : N) : bool :=
  ((65 <=? c)%N && (c <=? 90)%N) || ((97 <=? c)%N && (c <=? 122)%N) || (c =? 95)%N.
Definition is_alnum_ (c : N) : bool := is_alpha_ c || is_dig c.

(* longest prefix satisfying p: (prefix, rest) *)
Fixpoint span (p : N -> bool) (s : ustr) : ustr * ustr :=
  match s with
  | c :: r => if p c then let '(a, b) := span p r in (c :: a, b) else ([], s)
  | [] => ([], [])
  end.

(* optional exponent ([Ee][+-]?\d+)? : returns (matched text, rest) *)
Definition exponent (s : ustr) : ustr * ustr :=
  match s with
  | e :: r =>
      if (e =? 69)%N || (e =? 101)%N then
        match r with
        | sg :: r2 =>
            if (sg =? 43)%N || (sg =? 45)%N then
              let '(d, rest) := span is_dig r2 in
              match d with [] => ([], s) | _ => (e :: sg :: d, rest) end
            else
              let '(d, rest) := span is_dig r in
              match d with [] => ([], s) | _ => (e :: d, rest) end
        | [] => ([], s)
        end
      else ([], s)
  | [] => ([], s)
  end.

(* REAL at the start of s *)
Definition match_real (s : ustr) : option (ustr * ustr) :=
  let '(d1, r1) := span is_dig s in
  match d1, r1 with
  | _ :: _, dot :: r2 =>
      if (dot =? 46)%N then
        (* \d+[.]\d* exponent? *)
        let '(d2, r3) := span is_dig r2 in
        let '(ex, r4) := exponent r3 in
        Some (d1 ++ dot :: d2 ++ ex, r4)
      else
        (* \d+[Ee][+-]?\d+ *)
        let '(ex, r4) := exponent r1 in
        match ex with [] => None | _ => Some (d1 ++ ex, r4) end
  | [], dot :: r2 =>
      if (dot =? 46)%N then
        let '(d2, r3) := span is_dig r2 in
        match d2 with
        | [] => None
        | _ => let '(ex, r4) := exponent r3 in Some (dot :: d2 ++ ex, r4)
        end
      else None
  | _, _ => None
  end.

(* quoted string: quote, any non-quote characters, quote *)
Definition match_quoted (q : N) (s : ustr) : option (ustr * ustr) :=
  match s with
  | c :: r =>
      if (c =? q)%N then
        let '(body, rest) := span (fun x => negb (x =? q)%N) r in
        match rest with
        | c2 :: rest2 => Some (c :: body ++ [c2], rest2)
        | [] => None
        end
      else None
  | [] => None
  end.

Definition mem_str (s : ustr) (l : list string) : bool := existsb (fun x => ueqb s (cp x)) l.

Definition type_specifier : list string :=
  ["void"; "bool"; "char"; "short"; "int"; "long"; "float"; "double"; "signed"; "unsigned"; "complex"]%string.
Definition type_qualifier : list string := ["const"; "volatile"]%string.
Definition storage_class : list string := ["auto"; "register"; "static"; "extern"; "typedef"]%string.

Definition classify_id (v : ustr) : tkind :=
  if mem_str v type_specifier then TYPE_SPECIFIER
  else if mem_str v type_qualifier then TYPE_QUALIFIER
  else if mem_str v storage_class then STORAGE_CLASS
  else if ueqb v (cp "class") then KW_CLASS
  else if ueqb v (cp "enum") then KW_ENUM
  else if ueqb v (cp "namespace") then NAMESPACE   (* the keyword and "::" share the token type *)
  else if ueqb v (cp "struct") then KW_STRUCT
  else if ueqb v (cp "template") then KW_TEMPLATE
  else if ueqb v (cp "typename") then KW_TYPENAME
  else if ueqb v (cp "public") then KW_PUBLIC
  else if ueqb v (cp "private") then KW_PRIVATE
  else if ueqb v (cp "protected") then KW_PROTECTED
  else ID.

Definition single (c : N) : option tkind :=
  if (c =? 40)%N then Some LPAREN else if (c =? 41)%N then Some RPAREN
  else if (c =? 123)%N then Some LCURLY else if (c =? 125)%N then Some RCURLY
  else if (c =? 91)%N then Some LBRACKET else if (c =? 93)%N then Some RBRACKET
  else if (c =? 42)%N then Some STAR else if (c =? 61)%N then Some EQUALS
  else if (c =? 38)%N then Some REF else if (c =? 43)%N then Some PLUS
  else if (c =? 45)%N then Some MINUS else if (c =? 47)%N then Some SLASH
  else if (c =? 44)%N then Some COMMA else if (c =? 59)%N then Some SEMICOLON
  else if (c =? 60)%N then Some LT else if (c =? 62)%N then Some GT
  else if (c =? 126)%N then Some TILDE
  else None.

(* one token at the start of a non-empty s: (Some token | None for NEWLINE/SKIP, rest) *)
Definition next_token (s : ustr) : option tok * ustr :=
  match match_real s with
  | Some (v, r) => (Some {| tk := REAL; tv := v |}, r)
  | None =>
  match s with
  | [] => (None, [])
  | c :: r =>
      if is_dig c then let '(d, rest) := span is_dig s in (Some {| tk := INTEGER; tv := d |}, rest)
      else match (if (c =? 34)%N then match_quoted 34%N s else None) with
      | Some (v, rest) => (Some {| tk := DQUOTE; tv := v |}, rest)
      | None =>
      match (if (c =? 39)%N then match_quoted 39%N s else None) with
      | Some (v, rest) => (Some {| tk := SQUOTE; tv := v |}, rest)
      | None =>
      match single c with
      | Some k => (Some {| tk := k; tv := [c] |}, r)
      | None =>
          if (c =? 58)%N then
            match r with
            | c2 :: r2 => if (c2 =? 58)%N then (Some {| tk := NAMESPACE; tv := [c; c2] |}, r2)
                          else (Some {| tk := COLON; tv := [c] |}, r)
            | [] => (Some {| tk := COLON; tv := [c] |}, r)
            end
          else if (c =? 46)%N then
            match r with
            | c2 :: c3 :: r3 => if (c2 =? 46)%N && (c3 =? 46)%N then (Some {| tk := VARARG; tv := [c; c2; c3] |}, r3)
                                else (Some {| tk := OTHER; tv := [c] |}, r)
            | _ => (Some {| tk := OTHER; tv := [c] |}, r)
            end
          else if is_alpha_ c then
            let '(v, rest) := span is_alnum_ s in (Some {| tk := classify_id v; tv := v |}, rest)
          else if (c =? 10)%N || (c =? 32)%N || (c =? 9)%N then (None, r)
          else (Some {| tk := OTHER; tv := [c] |}, r)
      end end end
  end end.

(* every step consumes at least one character, so |s| + 1 fuel suffices *)
Fixpoint lex_fuel (fuel : nat) (s : ustr) : list tok :=
  match fuel with
  | O => []
  | S f =>
      match s with
      | [] => []
      | _ => let '(t, r) := next_token s in
             match t with Some x => x :: lex_fuel f r | None => lex_fuel f r end
      end
  end.

Definition tokenize (s : ustr) : list tok := lex_fuel (S (List.length s)) s.
