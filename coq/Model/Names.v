(* Model/Names.v — executable model of the function expansion and naming of one scope (a namespace or a class):
   generate.GenFunctions.define_function_suffix (overload numbering), has_default_args, template_function (suffix part),
   generic_function (suffix part), util.un_camel and the name templates C_name / F_name_impl / F_name_generic
   (ast.LibraryNode.default_options, Namify).  Functions are abstract: only what decides names is kept.
   Not modelled: bufferify / CFI clones (arg_to_buffer, arg_to_CFI), return_this, assumed-rank generics, constructors'
   generic grouping by derived-type name, default arguments combined with templates. *)
From Coq Require Import List NArith ZArith Bool Arith String.
From Shroud Require Import Base.Ustr Model.Splicer Model.Options.
Import ListNotations.

(* util.un_camel on ASCII letters *)
Definition is_upper (c : N) : bool := (65 <=? c)%N && (c <=? 90)%N.
Definition is_lower (c : N) : bool := (97 <=? c)%N && (c <=? 122)%N.
Definition to_lower (c : N) : N := if is_upper c then (c + 32)%N else c.

(* pos: index of c; prev: text[pos-1] when pos-1 > 0 (i.e. pos >= 2), next: text[pos+1] *)
Fixpoint un_camel_from (pos : nat) (prev : option N) (s : ustr) : ustr :=
  match s with
  | [] => []
  | c :: r =>
      let prev_ok := match pos with O | S O => false | _ => true end in
      let pl := prev_ok && match prev with Some p => is_lower p | None => false end in
      let nl := prev_ok && match r with n :: _ => is_lower n | [] => false end in
      (if is_upper c then (if pl || nl then [95%N; to_lower c] else [to_lower c]) else [c])
      ++ un_camel_from (S pos) (Some c) r
  end.
Definition un_camel (s : ustr) : ustr := un_camel_from 0 None s.

Record fn := {
  f_name : ustr;                            (* C++ name *)
  f_ndef : nat;                             (* number of defaulted (trailing) parameters *)
  f_suffix : option ustr;                   (* explicit format: function_suffix *)
  f_das : list ustr;                        (* default_arg_suffix *)
  f_tmpl : list (option ustr * ustr);       (* cxx_template instantiations: explicit template_suffix, flat name of the argument *)
  f_generic : list ustr                     (* fortran_generic: function_suffix of each entry (default _<index>) *)
}.

Inductive origin := Orig | DefaultArg (k : nat) | Template (k : nat) | Generic (k : nat).

Record emitted := {
  e_src : nat;               (* index of the declared function in the scope *)
  e_origin : origin;
  e_name : ustr;
  e_fs : ustr;               (* function_suffix *)
  e_fs_local : bool;         (* function_suffix is set locally (explicit or from default_arg_suffix): not renumbered *)
  e_ts : ustr;               (* template_suffix *)
  e_templ : bool;            (* has template_arguments: excluded from overload numbering *)
  e_c : bool; e_f : bool     (* wrapped for C / Fortran *)
}.

Definition opt_or (o : option ustr) (d : ustr) : ustr := match o with Some x => x | None => d end.
Definition is_some {A} (o : option A) : bool := match o with Some _ => true | None => false end.

(* step 1: default-argument clones before the function, template clones after it *)
Definition expand_one (i : nat) (f : fn) : list emitted :=
  let base_fs := opt_or (f_suffix f) [] in
  let base_local := is_some (f_suffix f) in
  let templ := match f_tmpl f with [] => false | _ => true end in
  let clones :=
    map (fun j => match nth_error (f_das f) j with
                  | Some s => {| e_src := i; e_origin := DefaultArg j; e_name := f_name f; e_fs := s; e_fs_local := true;
                                 e_ts := []; e_templ := templ; e_c := true; e_f := true |}
                  | None => {| e_src := i; e_origin := DefaultArg j; e_name := f_name f; e_fs := base_fs; e_fs_local := base_local;
                               e_ts := []; e_templ := templ; e_c := true; e_f := true |}
                  end) (seq 0 (f_ndef f)) in
  let orig :=
    match (match f_ndef f with O => None | _ => nth_error (f_das f) (f_ndef f) end) with
    | Some s => {| e_src := i; e_origin := Orig; e_name := f_name f; e_fs := s; e_fs_local := true;
                   e_ts := []; e_templ := templ; e_c := negb templ; e_f := negb templ |}
    | None => {| e_src := i; e_origin := Orig; e_name := f_name f; e_fs := base_fs; e_fs_local := base_local;
                 e_ts := []; e_templ := templ; e_c := negb templ; e_f := negb templ |}
    end in
  let tclones :=
    map (fun kt => let '(k, (ex, flat)) := kt in
                   {| e_src := i; e_origin := Template k; e_name := f_name f; e_fs := e_fs orig; e_fs_local := e_fs_local orig;
                      e_ts := opt_or ex (95%N :: flat); e_templ := true; e_c := true; e_f := true |})
        (combine (seq 0 (List.length (f_tmpl f))) (f_tmpl f)) in
  clones ++ [orig] ++ tclones.

Fixpoint expand_from (i : nat) (l : list fn) : list emitted :=
  match l with [] => [] | f :: r => expand_one i f ++ expand_from (S i) r end.

(* step 2: overload numbering. i-th function of a group (by C++ name, template functions excluded) with more than one
   member gets "_i" unless its suffix is local *)
Definition in_group (n : ustr) (e : emitted) : bool := negb (e_templ e) && ueqb (e_name e) n.
Definition group_size (n : ustr) (l : list emitted) : nat := List.length (filter (in_group n) l).

(* position i of the list: the number of earlier members of the same group *)
Definition relabel (all : list emitted) (i : nat) (e : emitted) : emitted :=
  if negb (e_templ e) && Nat.ltb 1 (group_size (e_name e) all) && negb (e_fs_local e)
  then {| e_src := e_src e; e_origin := e_origin e; e_name := e_name e;
          e_fs := 95%N :: decimal (Z.of_nat (group_size (e_name e) (firstn i all))); e_fs_local := e_fs_local e;
          e_ts := e_ts e; e_templ := e_templ e; e_c := e_c e; e_f := e_f e |}
  else e.
Definition number (l : list emitted) : list emitted :=
  map (fun ie => relabel l (fst ie) (snd ie)) (combine (seq 0 (List.length l)) l).

(* step 3: fortran_generic clones (Fortran only) after the function; the function itself keeps only its C wrapper *)
Definition generic_one (fs : list fn) (e : emitted) : list emitted :=
  match e_origin e, nth_error fs (e_src e) with
  | Orig, Some f | DefaultArg _, Some f | Template _, Some f =>
      match f_generic f with
      | [] => [e]
      | gs => {| e_src := e_src e; e_origin := e_origin e; e_name := e_name e; e_fs := e_fs e; e_fs_local := e_fs_local e;
                 e_ts := e_ts e; e_templ := e_templ e; e_c := e_c e; e_f := false |} ::
              map (fun kg => {| e_src := e_src e; e_origin := Generic (fst kg); e_name := e_name e; e_fs := e_fs e ++ snd kg;
                                e_fs_local := true; e_ts := e_ts e; e_templ := e_templ e; e_c := false; e_f := e_f e |})
                  (combine (seq 0 (List.length gs)) gs)
      end
  | _, _ => [e]
  end.

Definition expand (fs : list fn) : list emitted := flat_map (generic_one fs) (number (expand_from 0 fs)).

(* names *)
Definition nm_c_name (prefix scope : ustr) (e : emitted) : ustr := prefix ++ scope ++ un_camel (e_name e) ++ e_fs e ++ e_ts e.
Definition nm_f_impl (scope : ustr) (e : emitted) : ustr := scope ++ un_camel (e_name e) ++ e_fs e ++ e_ts e.
Definition nm_f_generic (e : emitted) : ustr := un_camel (e_name e).

Definition c_names (prefix scope : ustr) (fs : list fn) : list ustr :=
  map (nm_c_name prefix scope) (filter e_c (expand fs)).
Definition f_names (scope : ustr) (fs : list fn) : list ustr :=
  map (nm_f_impl scope) (filter e_f (expand fs)).

(* ---- wrap flags of the declared functions (options wrap_c / wrap_fortran on a declaration): they select which of the emitted
   names exist, never how the functions are expanded or numbered (generate.py computes function_suffix before and without
   looking at the flags; wrapc / wrapf skip a function whose flag is off) ---- *)
Definition apply_wrap (ws : list (bool * bool)) (e : emitted) : emitted :=
  match nth_error ws (e_src e) with
  | Some (wc, wf) => {| e_src := e_src e; e_origin := e_origin e; e_name := e_name e; e_fs := e_fs e; e_fs_local := e_fs_local e;
                        e_ts := e_ts e; e_templ := e_templ e; e_c := e_c e && wc; e_f := e_f e && wf |}
  | None => e
  end.
Definition expand_w (fs : list fn) (ws : list (bool * bool)) : list emitted := map (apply_wrap ws) (expand fs).
Definition c_names_w (prefix scope : ustr) (fs : list fn) (ws : list (bool * bool)) : list ustr :=
  map (nm_c_name prefix scope) (filter e_c (expand_w fs ws)).
Definition f_names_w (scope : ustr) (fs : list fn) (ws : list (bool * bool)) : list ustr :=
  map (nm_f_impl scope) (filter e_f (expand_w fs ws)).
