(* Model/Splicer.v — executable model of shroud/splicer.py get_splicers (on the
   list of lines of the file, newline removed) and util.py _create_splicer. *)
From Coq Require Import List NArith ZArith Bool Arith String Ascii.
From Shroud Require Import Base.Ustr.
Import ListNotations.

(* ASCII literal -> ustr *)
Fixpoint cp (s : string) : ustr :=
  match s with
  | EmptyString => []
  | String a r => N_of_ascii a :: cp r
  end.

Definition str_begin : ustr := cp "splicer begin".
Definition str_end : ustr := cp "splicer end".
Definition DOT : N := 46%N.

(* Python line[i+len(marker):] when line.find(marker) = i > 0 *)
Definition after_marker (marker line : ustr) : option ustr :=
  match find_sub marker line with
  | Some (S i) => Some (skipn (S i + List.length marker) line)
  | _ => None
  end.

(* str.split()[0] : first white-space delimited field, None when there is none *)
Fixpoint take_field (s : ustr) : ustr :=
  match s with
  | [] => []
  | c :: r => if py_isspace c then [] else c :: take_field r
  end.
Definition first_field (s : ustr) : option ustr :=
  match lstrip s with [] => None | t => Some (take_field t) end.

Inductive stree := Leaf (code : list ustr) | Node (kids : list (ustr * stree)).
Definition kids_t := list (ustr * stree).

Fixpoint assoc_get (k : ustr) (l : kids_t) : option stree :=
  match l with
  | [] => None
  | (k', v) :: r => if ueqb k k' then Some v else assoc_get k r
  end.

(* dict assignment: replace in place, else append (insertion order kept) *)
Fixpoint assoc_set (k : ustr) (v : stree) (l : kids_t) : kids_t :=
  match l with
  | [] => [(k, v)]
  | (k', v') :: r => if ueqb k k' then (k, v) :: r else (k', v') :: assoc_set k v r
  end.

Definition assoc_mem (k : ustr) (l : kids_t) : bool :=
  match assoc_get k l with Some _ => true | None => false end.

(* the chain of top = top.setdefault(subtag, {}) at a begin marker *)
Fixpoint ensure (path : list ustr) (t : kids_t) : result kids_t :=
  match path with
  | [] => Ok t
  | p :: ps =>
      match assoc_get p t with
      | None => bind (ensure ps []) (fun sub => Ok (assoc_set p (Node sub) t))
      | Some (Node k) => bind (ensure ps k) (fun sub => Ok (assoc_set p (Node sub) t))
      | Some (Leaf _) => match ps with [] => Ok t | _ => Crash AttributeError end
      end
  end.

(* at the end marker:  if end_tag in top: raise ; top[begin_subtag] = save *)
Fixpoint set_leaf (path : list ustr) (name tag : ustr) (save : list ustr) (t : kids_t) : result kids_t :=
  match path with
  | [] => if assoc_mem tag t then Reject (cp "Tag already exists")
          else Ok (assoc_set name (Leaf save) t)
  | p :: ps =>
      match assoc_get p t with
      | Some (Node k) => bind (set_leaf ps name tag save k) (fun sub => Ok (assoc_set p (Node sub) t))
      | Some (Leaf c) => if existsb (ueqb tag) c then Reject (cp "Tag already exists") else Crash TypeError
      | None => Crash KeyError
      end
  end.

Record collect := { c_tag : ustr; c_path : list ustr; c_name : ustr; c_save : list ustr (* newest first *) }.

Definition split_tag (tag : ustr) : list ustr * ustr :=
  let parts := split_on DOT tag in (removelast parts, last parts []).

Definition sp_step (st : result (kids_t * option collect)) (line : ustr) : result (kids_t * option collect) :=
  bind st (fun s =>
    let '(t, c) := s in
    match c with
    | None =>
        match after_marker str_begin line with
        | None => Ok (t, None)
        | Some rest =>
            match first_field rest with
            | None => Crash IndexError
            | Some tag =>
                let '(path, name) := split_tag tag in
                bind (ensure path t) (fun t' =>
                Ok (t', Some {| c_tag := tag; c_path := path; c_name := name; c_save := [] |}))
            end
        end
    | Some cl =>
        match after_marker str_end line with
        | None => Ok (t, Some {| c_tag := c_tag cl; c_path := c_path cl; c_name := c_name cl;
                                 c_save := rstrip line :: c_save cl |})
        | Some rest =>
            match first_field rest with
            | None => Crash IndexError
            | Some etag =>
                if ueqb (c_tag cl) etag
                then bind (set_leaf (c_path cl) (c_name cl) etag (rev (c_save cl)) t) (fun t' => Ok (t', None))
                else Reject (cp "Mismatched tags")
            end
        end
    end).

Definition get_splicers (lines : list ustr) (out : kids_t) : result kids_t :=
  bind (fold_left sp_step lines (Ok (out, None))) (fun s => Ok (fst s)).

(* ---- util.py _create_splicer ----
   level = self.splicer_stack[-1] ; returns the lines appended to out and added_code *)
Definition create_splicer (show : bool) (comment path name : ustr) (level : kids_t)
           (default force : option (list ustr)) : result (list ustr * bool) :=
  let b := if show then [comment ++ cp " splicer begin " ++ path ++ name] else [] in
  let e := if show then [comment ++ cp " splicer end " ++ path ++ name] else [] in
  match force with
  | Some f => Ok (b ++ f ++ e, true)
  | None =>
      match assoc_get name level with
      | Some (Leaf code) => Ok (b ++ code ++ e, true)
      | Some (Node k) => Ok (b ++ map fst k ++ e, true)   (* out.extend(dict) appends the keys *)
      | None =>
          match default with
          | Some d => Ok (b ++ d ++ e, true)
          | None => Ok (b ++ e, false)
          end
      end
  end.
