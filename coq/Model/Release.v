(* Model/Release.v — the release codes of GENERATED C++ sources as data: the switch of <LIB>_SHROUD_memory_destructor
   (code -> type the pointer is cast to, deallocator) and every statement of a wrapper that stores a release code beside a
   pointer (code, type of that pointer, how the pointer was obtained).  Extracted on every run by tools/capflow.py. *)
From Coq Require Import List String Bool Arith.
Import ListNotations.
Open Scope string_scope.

Record rcase := { rc_code : nat; rc_type : string; rc_action : string }.       (* action: delete | free | none | other (user pattern) *)
Record rsite := { rs_where : string; rs_code : nat; rs_type : string; rs_how : string }.   (* how: new | call | copy | unknown *)
Record rlib := { rl_name : string; rl_cases : list rcase; rl_sites : list rsite }.

Fixpoint find_case (n : nat) (cs : list rcase) : option rcase :=
  match cs with [] => None | c :: r => if Nat.eqb (rc_code c) n then Some c else find_case n r end.

(* types released with free (docs/pointers.rst: "free will be used to release POD pointers") *)
Definition pod (t : string) : bool :=
  existsb (String.eqb t) ["char"; "short"; "int"; "long"; "longlong"; "unsignedint"; "unsignedlong"; "unsignedshort"; "unsignedlonglong";
                          "float"; "double"; "size_t"; "bool"; "int8_t"; "int16_t"; "int32_t"; "int64_t"; "uint8_t"; "uint16_t"; "uint32_t"; "uint64_t"].
Fixpoint prefix (p s : string) : bool :=
  match p, s with
  | EmptyString, _ => true
  | String a p', String b s' => Ascii.eqb a b && prefix p' s'
  | _, _ => false
  end.
Definition std_object (t : string) : bool := prefix "std::string" t || prefix "std::vector" t.

(* the code stored beside a pointer selects a case that releases exactly that pointer's type with the matching deallocator:
   0 = library owned (nothing is released); a user pattern decides for itself; otherwise the case casts to the pointer's own
   type, memory obtained with new is deleted, standard-library objects are deleted, POD memory is freed *)
Definition site_ok (cs : list rcase) (s : rsite) : bool :=
  (* code 0 = nothing to release: never for memory the wrapper itself obtained with new *)
  if Nat.eqb (rs_code s) 0 then negb (String.eqb (rs_how s) "new")
  else match find_case (rs_code s) cs with
       | None => false
       | Some c =>
           if String.eqb (rc_action c) "other" then true
           else String.eqb (rc_type c) (rs_type s)
                && (String.eqb (rc_action c) "delete" || String.eqb (rc_action c) "free")
                && (if String.eqb (rs_how s) "new" then String.eqb (rc_action c) "delete" else true)
                && (if std_object (rs_type s) then String.eqb (rc_action c) "delete" else true)
                && (if pod (rs_type s) then String.eqb (rc_action c) "free" else true)
       end.

(* no code is listed twice in a switch *)
Fixpoint codes_distinct (cs : list rcase) : bool :=
  match cs with [] => true | c :: r => negb (existsb (fun d => Nat.eqb (rc_code d) (rc_code c)) r) && codes_distinct r end.

Definition lib_ok (l : rlib) : bool := codes_distinct (rl_cases l) && forallb (site_ok (rl_cases l)) (rl_sites l).
