(* Model/PyHandles.v — the reference-counting layer a Python extension puts over the capsule protocol: Python variables refer
   to wrapped objects; copying a reference is aliasing (no capsule is copied); the release function runs when the LAST
   reference to an object is dropped.  [compile] turns a sequence of Python-level operations into the capsule operations
   the extension performs. *)
From Coq Require Import List NArith Bool Arith.
From Shroud Require Import Model.Capsule.
Import ListNotations.

Inductive pyop :=
| PNew (k : nat)        (* x = Cls(...) / x = make(...): a new caller-owned object with release code k *)
| PBorrow (a : nat)     (* x = borrow(...): a reference to library-owned object number a *)
| PLib                  (* the library creates an object of its own *)
| PAlias (v : nat)      (* y = x *)
| PDrop (v : nat)       (* del x *)
| PMethod (v : nat).    (* x.method() *)

(* interpreter state: what each Python variable refers to (None: deleted), the kinds of the objects created so far
   (0 = library owned) and the number of handles created so far *)
Record pystate := { vars : list (option nat); kinds : list nat; nhandles : nat }.
Definition py_init : pystate := {| vars := []; kinds := []; nhandles := 0 |}.

Definition refs_to (h : nat) (vs : list (option nat)) : nat :=
  List.length (filter (fun x => match x with Some h' => Nat.eqb h h' | None => false end) vs).

Fixpoint set_var (n : nat) (l : list (option nat)) : list (option nat) :=
  match l, n with
  | [], _ => []
  | _ :: r, O => None :: r
  | y :: r, S k => y :: set_var k r
  end.

(* one Python operation: the new interpreter state and the capsule operations performed (ill-formed operations -- an unknown
   variable, a release code 0, a borrow of something that is not a library object -- do nothing) *)
Definition py_step (p : pystate) (o : pyop) : pystate * list op :=
  match o with
  | PNew k =>
      if Nat.eqb k 0 then (p, [])
      else ({| vars := vars p ++ [Some (nhandles p)]; kinds := kinds p ++ [k]; nhandles := S (nhandles p) |}, [New k])
  | PLib => ({| vars := vars p; kinds := kinds p ++ [0]; nhandles := nhandles p |}, [LibObject])
  | PBorrow a =>
      match nth_error (kinds p) a with
      | Some 0 => ({| vars := vars p ++ [Some (nhandles p)]; kinds := kinds p; nhandles := S (nhandles p) |}, [Borrow a])
      | _ => (p, [])
      end
  | PAlias v =>
      match nth_error (vars p) v with
      | Some (Some h) => ({| vars := vars p ++ [Some h]; kinds := kinds p; nhandles := nhandles p |}, [])
      | _ => (p, [])
      end
  | PMethod v =>
      match nth_error (vars p) v with
      | Some (Some h) => (p, [Method h])
      | _ => (p, [])
      end
  | PDrop v =>
      match nth_error (vars p) v with
      | Some (Some h) =>
          let vs := set_var v (vars p) in
          ({| vars := vs; kinds := kinds p; nhandles := nhandles p |}, if Nat.eqb (refs_to h vs) 0 then [Release h] else [])
      | _ => (p, [])
      end
  end.

Fixpoint compile (p : pystate) (ops : list pyop) : list op :=
  match ops with
  | [] => []
  | o :: r => let '(p', cs) := py_step p o in cs ++ compile p' r
  end.

Fixpoint py_run (p : pystate) (ops : list pyop) : pystate :=
  match ops with [] => p | o :: r => py_run (fst (py_step p o)) r end.
