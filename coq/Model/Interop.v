(* Model/Interop.v — how wrapc.wrap_function (C prototype) and wrapf.wrap_function_interface (bind(C)
   interface) lay out the parameters of one C entry point from the statement entries' buf_args:
   this (methods) ++ per-argument (buf_args or ["arg"]) ++ result buf_extra. *)
From Coq Require Import List Bool Arith.
Import ListNotations.

Inductive bufarg := BArg | BShadow | BArgDecl (nc nf : nat) | BSize | BCapsule | BContext | BLenTrim | BLen.

(* identity of one emitted parameter: which source (0 = this, k+1 = k-th argument, S (n+1).. = result extra),
   which buf_arg of that source, which declaration of an arg_decl list *)
Record pid := { p_src : nat; p_buf : nat; p_sub : nat }.

Definition c_expand (src bi : nat) (b : bufarg) : list pid :=
  match b with
  | BArgDecl nc _ => map (fun k => {| p_src := src; p_buf := bi; p_sub := k |}) (seq 0 nc)
  | _ => [{| p_src := src; p_buf := bi; p_sub := 0 |}]
  end.
Definition f_expand (src bi : nat) (b : bufarg) : list pid :=
  match b with
  | BArgDecl _ nf => map (fun k => {| p_src := src; p_buf := bi; p_sub := k |}) (seq 0 nf)
  | _ => [{| p_src := src; p_buf := bi; p_sub := 0 |}]
  end.

Fixpoint expand_bufs (ex : nat -> nat -> bufarg -> list pid) (src bi : nat) (bs : list bufarg) : list pid :=
  match bs with
  | [] => []
  | b :: r => ex src bi b ++ expand_bufs ex src (S bi) r
  end.

Fixpoint expand_args (ex : nat -> nat -> bufarg -> list pid) (src : nat) (args : list (list bufarg)) : list pid :=
  match args with
  | [] => []
  | bs :: r => expand_bufs ex src 0 (match bs with [] => [BArg] | _ => bs end) ++ expand_args ex (S src) r
  end.

Record fsig := { has_this : bool; arg_bufs : list (list bufarg); extra_bufs : list bufarg }.

Definition layout (ex : nat -> nat -> bufarg -> list pid) (s : fsig) : list pid :=
  (if has_this s then [{| p_src := 0; p_buf := 0; p_sub := 0 |}] else []) ++
  expand_args ex 1 (arg_bufs s) ++
  expand_bufs ex (S (length (arg_bufs s))) 0 (extra_bufs s).

Definition c_prototype (s : fsig) : list pid := layout c_expand s.
Definition f_interface (s : fsig) : list pid := layout f_expand s.

Definition balanced (b : bufarg) : bool := match b with BArgDecl nc nf => Nat.eqb nc nf | _ => true end.
Definition sig_balanced (s : fsig) : bool :=
  forallb (forallb balanced) (arg_bufs s) && forallb balanced (extra_bufs s).
