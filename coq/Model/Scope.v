(* Model/Scope.v — executable model of shroud/util.py class Scope as a heap of
   objects (aliasing matters: children see later updates of their parents).
   Keys are attribute names numbered injectively by the harness; values opaque numbers.
   Not modelled: the two name-mangled private slots living in the same __dict__. *)
From Coq Require Import List NArith Bool Arith.
From Shroud Require Import Base.Ustr.
Import ListNotations.

Definition key := N.
Definition val := N.
Definition alist := list (key * val).

Record sobj := { parent : option nat; locals : alist }.
Definition heap := list sobj.

Fixpoint aget (k : key) (l : alist) : option val :=
  match l with
  | [] => None
  | (k', v) :: r => if N.eqb k k' then Some v else aget k r
  end.

Fixpoint aset (k : key) (v : val) (l : alist) : alist :=
  match l with
  | [] => [(k, v)]
  | (k', v') :: r => if N.eqb k k' then (k, v) :: r else (k', v') :: aset k v r
  end.

Fixpoint adel (k : key) (l : alist) : alist :=
  match l with
  | [] => []
  | (k', v') :: r => if N.eqb k k' then r else (k', v') :: adel k r
  end.

(* getattr: local dict, then the parent chain. OutOfFuel = Python RecursionError (cyclic parents). *)
Fixpoint lookup (fuel : nat) (h : heap) (id : nat) (k : key) : result val :=
  match fuel with
  | O => OutOfFuel
  | S f =>
      match nth_error h id with
      | None => Crash AttributeError
      | Some o =>
          match aget k (locals o) with
          | Some v => Ok v
          | None => match parent o with
                    | Some p => lookup f h p k
                    | None => Crash AttributeError
                    end
          end
      end
  end.

Definition getattr (h : heap) (id : nat) (k : key) : result val := lookup (S (length h)) h id k.

(* hasattr: getattr does not raise AttributeError (RecursionError propagates) *)
Definition hasattr (h : heap) (id : nat) (k : key) : result bool :=
  match getattr h id k with
  | Ok _ => Ok true
  | Crash AttributeError => Ok false
  | Crash e => Crash e
  | Reject m => Reject m
  | OutOfFuel => OutOfFuel
  end.

Fixpoint set_nth (h : heap) (id : nat) (o : sobj) : heap :=
  match h, id with
  | [], _ => []
  | _ :: r, O => o :: r
  | x :: r, S n => x :: set_nth r n o
  end.

Definition with_locals (h : heap) (id : nat) (f : alist -> alist) : heap :=
  match nth_error h id with
  | Some o => set_nth h id {| parent := parent o; locals := f (locals o) |}
  | None => h
  end.

Definition setattr (h : heap) (id : nat) (k : key) (v : val) : heap := with_locals h id (aset k v).

Definition inlocal (h : heap) (id : nat) (k : key) : bool :=
  match nth_error h id with
  | Some o => match aget k (locals o) with Some _ => true | None => false end
  | None => false
  end.

Definition setdefault (h : heap) (id : nat) (k : key) (v : val) : heap :=
  if inlocal h id k then h else setattr h id k v.

(* update(d, replace) *)
Fixpoint update (h : heap) (id : nat) (d : alist) (replace : bool) : result heap :=
  match d with
  | [] => Ok h
  | (k, v) :: r =>
      if replace then update (setattr h id k v) id r replace
      else bind (hasattr h id k) (fun b =>
           if b then update h id r replace else update (setattr h id k v) id r replace)
  end.

Definition delattrs (h : heap) (id : nat) (ks : list key) : heap :=
  with_locals h id (fun l => fold_left (fun acc k => adel k acc) ks l).

(* Scope(parent, **kw): new object appended, returns its id = old length *)
Definition new_scope (h : heap) (p : option nat) (kw : alist) : heap * nat :=
  let id := length h in
  let h1 := h ++ [{| parent := p; locals := [] |}] in
  (fold_left (fun acc kv => setattr acc id (fst kv) (snd kv)) kw h1, id).

Definition clone (h : heap) (id : nat) : heap * nat :=
  match nth_error h id with
  | Some o => (h ++ [{| parent := parent o; locals := locals o |}], length h)
  | None => (h, length h)
  end.

Definition reparent (h : heap) (id : nat) (p : option nat) : heap :=
  match nth_error h id with
  | Some o => set_nth h id {| parent := p; locals := locals o |}
  | None => h
  end.

(* ---- operation language for the correspondence harness ---- *)
Inductive sop :=
| ONew (p : option nat) (kw : alist)
| OSet (id : nat) (k : key) (v : val)
| OGet (id : nat) (k : key)
| OHas (id : nat) (k : key)
| OGetD (id : nat) (k : key) (d : val)
| OSetDefault (id : nat) (k : key) (v : val)
| OUpdate (id : nat) (d : alist) (replace : bool)
| OInLocal (id : nat) (k : key)
| ODel (id : nat) (ks : list key)
| OClone (id : nat)
| OReparent (id : nat) (p : option nat).

Inductive sout := RNone | RVal (v : val) | RBool (b : bool) | RId (n : nat) | RAttrErr | RRecursion.

Definition out_of_get (r : result val) : sout :=
  match r with Ok v => RVal v | OutOfFuel => RRecursion | _ => RAttrErr end.

Definition sstep (h : heap) (o : sop) : heap * sout :=
  match o with
  | ONew p kw => let '(h', id) := new_scope h p kw in (h', RId id)
  | OSet id k v => (setattr h id k v, RNone)
  | OGet id k => (h, out_of_get (getattr h id k))
  | OHas id k => (h, match hasattr h id k with Ok b => RBool b | _ => RRecursion end)
  | OGetD id k d => (h, match getattr h id k with Ok v => RVal v | Crash AttributeError => RVal d | _ => RRecursion end)
  | OSetDefault id k v =>
      let h' := setdefault h id k v in
      (h', match nth_error h' id with
           | Some o => match aget k (locals o) with Some x => RVal x | None => RVal v end
           | None => RNone end)
  | OUpdate id d rp => match update h id d rp with Ok h' => (h', RNone) | _ => (h, RRecursion) end
  | OInLocal id k => (h, RBool (inlocal h id k))
  | ODel id ks => (delattrs h id ks, RNone)
  | OClone id => let '(h', n) := clone h id in (h', RId n)
  | OReparent id p => (reparent h id p, RNone)
  end.

Fixpoint srun (h : heap) (ops : list sop) : list sout :=
  match ops with
  | [] => []
  | o :: r => let '(h', out) := sstep h o in out :: srun h' r
  end.
