(* Model/Attrs.v — executable model of generate.VerifyAttrs (check_fcn_attrs, check_arg_attrs, check_var_attrs,
   check_intent_attr, check_deref_attr, check_common_attrs, parse_attrs) and check_implied_attrs / CheckImplied,
   as a classifier: Ok (validation passes) / Reject (RuntimeError diagnostic) / Crash (internal exception).
   The defaults these functions also store (intent, value, rank, deref) do not influence later checks of the
   validation stage and are not modelled here.  [Reject UNMODELLED] marks a floating point rank value. *)
From Coq Require Import List NArith ZArith Bool Arith String.
From Shroud Require Import Base.Ustr Model.Splicer Model.Options Model.Lexer Model.Expr Model.Decl.
Import ListNotations.

Record aenv := {
  tminfo : list (ustr * (ustr * ustr));      (* typemap name -> (base, sgroup) *)
  patterns : list ustr                       (* names in the YAML patterns section *)
}.

Fixpoint alookup {A} (k : ustr) (l : list (ustr * A)) : option A :=
  match l with [] => None | (k', v) :: r => if ueqb k k' then Some v else alookup k r end.
Definition tm_base (e : aenv) (n : ustr) : ustr := match alookup n (tminfo e) with Some (b, _) => b | None => [] end.

Definition d_attrs (d : decl) := let '(Decl _ _ _ _ _ _ _ _ a _ _ _) := d in a.
Definition d_tm (d : decl) := let '(Decl _ _ _ _ t _ _ _ _ _ _ _) := d in t.
Definition d_dtor (d : decl) := let '(Decl _ _ _ _ _ x _ _ _ _ _ _) := d in x.
Definition d_params (d : decl) := let '(Decl _ _ _ _ _ _ p _ _ _ _ _) := d in p.
Definition d_targs (d : decl) := let '(Decl _ _ _ _ _ _ _ _ _ _ t _) := d in t.

Fixpoint attr_get (k : ustr) (l : list (ustr * attrval)) : attrval :=
  match l with
  | [] => AVNone                                   (* attrs is a defaultdict(lambda: None) *)
  | (k', v) :: r => if ueqb k k' then v else attr_get k r
  end.
Definition aget (k : string) (d : decl) : attrval := attr_get (cp k) (d_attrs d).

Definition all_zero_digits (s : ustr) : bool := forallb (fun c => negb (is_dig c) || (c =? 48)%N) s.
(* mantissa of a REAL token: the text before e/E *)
Fixpoint mantissa (s : ustr) : ustr :=
  match s with [] => [] | c :: r => if (c =? 101)%N || (c =? 69)%N then [] else c :: mantissa r end.

(* Python truth value of an attribute value (floating point underflow to 0.0 is not modelled) *)
Definition truthy (v : attrval) : bool :=
  match v with
  | AVTrue => true
  | AVStr s => match s with [] => false | _ => true end
  | AVInt s => negb (all_zero_digits s)
  | AVReal s => negb (all_zero_digits (mantissa s))
  | AVNone => false
  end.
Definition is_none (v : attrval) : bool := match v with AVNone => true | _ => false end.

(* str.lower() on the ASCII range: enough to decide membership in {in, out, inout} *)
Definition lower (s : ustr) : ustr := map (fun c => if (65 <=? c)%N && (c <=? 90)%N then (c + 32)%N else c) s.

Definition indirect (d : decl) : nat := match d_dtor d with Some (Dtor ps _ _) => List.length ps | None => 0 end.
Definition is_fptr (d : decl) : bool :=
  match d_dtor d with Some (Dtor _ _ (Some (Dtor (_ :: _) _ _))) => true | _ => false end.

Definition in_strs (s : ustr) (l : list string) : bool := existsb (fun x => ueqb s (cp x)) l.

(* the attribute-name loop: first key that is neither internal (leading underscore) nor allowed *)
Definition names_ok (allowed : list string) (d : decl) : bool :=
  forallb (fun kv => match fst kv with
                     | c :: _ => (c =? 95)%N || in_strs (fst kv) allowed
                     | [] => in_strs (fst kv) allowed
                     end) (d_attrs d).

Definition fcn_attr_names : list string :=
  ["allocatable"; "cdesc"; "deref"; "dimension"; "free_pattern"; "len"; "name"; "owner"; "pure"; "rank"]%string.
Definition arg_attr_names : list string :=
  ["allocatable"; "assumedtype"; "capsule"; "cdesc"; "charlen"; "external"; "deref"; "dimension"; "hidden"; "implied"; "intent";
   "len"; "len_trim"; "name"; "owner"; "pass"; "rank"; "size"; "value"]%string.
Definition var_attr_names : list string := ["name"; "readonly"; "dimension"]%string.

Definition ok : result unit := Ok tt.
Definition rej {A} (m : string) : result A := Reject (cp m).

Definition check_intent (d : decl) : result unit :=
  match aget "intent" d with
  | AVNone => ok
  | AVStr s =>
      let i := lower s in
      if negb (in_strs i ["in"; "out"; "inout"]%string) then rej "Bad value for intent"
      else if Nat.eqb (indirect d) 0 && negb (ueqb i (cp "in")) then rej "Only pointer arguments may have intent attribute"
      else ok
  | _ => rej "Bad value for intent"
  end.

Definition check_deref (d : decl) : result unit :=
  match aget "deref" d with
  | AVNone => ok
  | AVStr s => if negb (in_strs s ["allocatable"; "pointer"; "raw"; "scalar"]%string) then rej "Illegal value for deref attribute"
               else if Nat.eqb (indirect d) 0 then rej "Cannot have attribute 'deref' on non-pointer" else ok
  | _ => rej "Illegal value for deref attribute"
  end.

(* int(rank) <= 7, for the values the parser can produce *)
Definition check_rank_value (v : attrval) : result unit :=
  match v with
  | AVTrue => rej "'rank' attribute must have an integer value"
  | AVStr s => match py_int s with
               | None => rej "'rank' attribute must have an integer value, not"
               | Some z => if (7 <? z)%Z then rej "'rank' attribute must be 0-7" else ok
               end
  | AVInt s => match py_int s with
               | None => rej "'rank' attribute must have an integer value, not"      (* unreachable: INTEGER tokens are digits *)
               | Some z => if (7 <? z)%Z then rej "'rank' attribute must be 0-7" else ok
               end
  | AVReal _ => rej "UNMODELLED"
  | AVNone => ok
  end.

Definition check_common (e : aenv) (d : decl) : result unit :=
  bind (check_deref d) (fun _ =>
  let rank := aget "rank" d in
  let is_ptr := negb (Nat.eqb (indirect d) 0) in
  (* rank is not None and rank != 0 *)
  let rank_present := match rank with AVNone => false | AVInt _ | AVReal _ => truthy rank | _ => true end in
  bind (if rank_present then
          bind (check_rank_value rank) (fun _ =>
          if negb is_ptr then rej "rank attribute can only be used on pointer and references" else ok)
        else ok) (fun _ =>
  let dim := aget "dimension" d in
  bind (if truthy dim then
          match dim with
          | AVTrue => rej "dimension attribute must have a value."
          | _ => if truthy (aget "value" d) then rej "argument may not have 'value' and 'dimension' attribute."
                 else if truthy rank then rej "argument may not have 'rank' and 'dimension' attribute."
                 else if negb is_ptr then rej "dimension attribute can only be used on pointer and references"
                 else ok
          end
        else ok) (fun _ =>
  bind (match aget "owner" d with
        | AVNone => ok
        | AVStr s => if in_strs s ["caller"; "library"]%string then ok else rej "Illegal value for owner attribute"
        | _ => rej "Illegal value for owner attribute"
        end) (fun _ =>
  match aget "free_pattern" d with
  | AVNone => ok
  | AVStr s => if ustr_in s (patterns e) then ok else rej "Illegal value for free_pattern attribute"
  | _ => rej "Illegal value for free_pattern attribute"
  end)))).

(* declast.check_dimension: ".." or expr [, expr]* followed by the end of the text *)
Fixpoint p_shape (fuel : nat) (ts : list tok) : result unit :=
  match fuel with
  | O => OutOfFuel
  | S f => bind (parse_expression ts) (fun x =>
           if peek COMMA (snd x) then p_shape f (tl (snd x))
           else bind (mustbe EOF (snd x)) (fun _ => ok))
  end.
Definition check_dimension (s : ustr) : result unit :=
  if ueqb s (cp "..") then ok else let ts := tokenize s in p_shape (S (List.length ts)) ts.

Definition parse_attrs (d : decl) : result unit :=
  let dim := aget "dimension" d in
  if truthy dim then
    match dim with
    | AVStr s => match check_dimension s with
                 | Ok _ => ok
                 | Reject _ => rej "Unable to parse dimension"
                 | Crash x => Crash x
                 | OutOfFuel => OutOfFuel
                 end
    | _ => rej "dimension attribute must have a value."
    end
  else ok.

(* check_arg_attrs; fuel bounds the nesting of function pointer parameters *)
Fixpoint check_arg (fuel : nat) (e : aenv) (d : decl) {struct fuel} : result unit :=
  match fuel with
  | O => OutOfFuel
  | S f =>
      if negb (names_ok arg_attr_names d) then rej "Illegal attribute for argument" else
      bind (check_intent d) (fun _ =>
      bind (check_common e d) (fun _ =>
      let is_ptr := indirect d in
      bind (if negb (is_none (aget "assumedtype" d)) then
              if truthy (aget "value" d) then rej "argument must not have value=True because it has the assumedtype attribute." else ok
            else ok) (fun _ =>
      bind (if truthy (aget "charlen" d) then
              if negb (ueqb (tm_base e (d_tm d)) (cp "string")) then rej "charlen attribute can only be used on 'char *'"
              else if negb (Nat.eqb is_ptr 1) then rej "charlen attribute can only be used on 'char *'"
              else match aget "charlen" d with AVTrue => rej "charlen attribute must have a value" | _ => ok end
            else ok) (fun _ =>
      bind (if ueqb (tm_base e (d_tm d)) (cp "vector") then
              match d_targs d with [] => rej "std::vector must have template argument" | _ => ok end
            else match d_targs d with [] => ok | _ => rej "Type may not supply template argument" end) (fun _ =>
      bind (parse_attrs d) (fun _ =>
      if is_fptr d then
        (fix each (l : list decl) : result unit :=
           match l with [] => ok | a :: r => bind (check_arg f e a) (fun _ => each r) end)
        (match d_params d with Some l => l | None => [] end)
      else ok))))))
  end.

Fixpoint decl_depth (d : decl) : nat :=
  let '(Decl _ _ _ _ _ _ p _ _ _ _ _) := d in
  match p with
  | None => 1
  | Some l => S ((fix mx (l : list decl) : nat := match l with [] => 0 | a :: r => Nat.max (decl_depth a) (mx r) end) l)
  end.

(* Declaration.get_name(): attrs["name"] or attrs["_name"], else the declarator's name; None unless a str *)
Definition dtor_name (d : decl) : option ustr :=
  match d_dtor d with
  | None => None
  | Some (Dtor _ (Some n) _) => Some n
  | Some (Dtor _ None (Some (Dtor _ n _))) => n
  | Some (Dtor _ None None) => None
  end.
Definition get_name_str (d : decl) : option ustr :=
  let n := aget "name" d in
  if truthy n then match n with AVStr s => Some s | _ => None end
  else match aget "_name" d with
       | AVNone => dtor_name d
       | AVStr s => Some s
       | _ => None
       end.
Definition find_arg (decls : list decl) (name : ustr) : bool :=
  existsb (fun d => match get_name_str d with Some n => ueqb n name | None => false end) decls.

(* CheckImplied visitor *)
Fixpoint implied_walk (decls : list decl) (x : expr) : result unit :=
  match x with
  | EIdent _ None => ok
  | EIdent n (Some args) =>
      if in_strs n ["size"; "len"; "len_trim"]%string then
        match args with
        | [a] => match a with
                 | EIdent an _ => if find_arg decls an then ok else rej "Unknown argument"
                 | _ => rej "Unknown argument"
                 end
        | _ => rej "Too many arguments"
        end
      else (fix each (l : list expr) : result unit :=
              match l with [] => ok | a :: r => bind (implied_walk decls a) (fun _ => each r) end) args
  | EConst _ => ok
  | EBin l _ r => bind (implied_walk decls r) (fun _ => implied_walk decls l)
  | EUn _ a => implied_walk decls a
  | EParen a => implied_walk decls a
  end.

Definition check_implied (decls : list decl) (d : decl) : result unit :=
  let v := aget "implied" d in
  if truthy v then
    match v with
    | AVStr s => let ts := tokenize s in
                 bind (parse_expression ts) (fun x => bind (mustbe EOF (snd x)) (fun _ => implied_walk decls (fst x)))
    | _ => rej "implied attribute must have a value."
    end
  else ok.

Fixpoint each_result {A} (f : A -> result unit) (l : list A) : result unit :=
  match l with [] => ok | a :: r => bind (f a) (fun _ => each_result f r) end.

(* check_fcn_attrs for a function without fortran_generic *)
Definition check_fcn (e : aenv) (d : decl) : result unit :=
  if negb (names_ok fcn_attr_names d) then rej "Illegal attribute for function" else
  bind (check_common e d) (fun _ =>
  let ps := match d_params d with Some l => l | None => [] end in
  bind (each_result (fun a => check_arg (S (decl_depth a)) e a) ps) (fun _ =>
  bind (each_result (check_implied ps) ps) (fun _ =>
  parse_attrs d))).

Definition check_var (d : decl) : result unit :=
  if negb (names_ok var_attr_names d) then rej "Illegal attribute for variable" else
  if truthy (aget "dimension" d) && Nat.eqb (indirect d) 0 then rej "dimension attribute can only be used on pointer and references"
  else parse_attrs d.

(* parse a declaration in context and validate it as a function (or as a class member variable) *)
Definition parse_and_verify (c : pctx) (e : aenv) (as_var : bool) (s : ustr) : result unit :=
  bind (parse_statement c s) (fun st =>
  match st with
  | SDecl d => if as_var then check_var d else check_fcn e d
  | _ => ok
  end).
