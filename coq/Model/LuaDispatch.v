(* Model/LuaDispatch.v — executable model of the control flow shroud/wrapl.py generates:
   wrap_function (all_calls, by_count, first-match chain over lua_type) and do_function
   (the stack index each argument is read from). *)
From Coq Require Import List NArith Bool Arith.
Import ListNotations.

Inductive ltag := LNum | LBool | LStr | LUser | LNil.
Definition ltag_eqb (a b : ltag) : bool :=
  match a, b with
  | LNum, LNum | LBool, LBool | LStr, LStr | LUser, LUser | LNil, LNil => true
  | _, _ => false
  end.

Record lparam := { p_tag : ltag; p_default : bool }.
Record lfun := { f_params : list lparam; f_result : bool }.

(* one call variation: overload index, the parameters supplied from the stack, number of results *)
Record lcall := { c_fun : nat; c_in : list lparam; c_nres : nat }.

(* "for arg in params: if arg.init is not None: all_calls.append(in_args[:]) ; in_args.append(arg)"
   then the full call *)
Fixpoint calls_of (idx : nat) (nres : nat) (seen : list lparam) (ps : list lparam) : list lcall :=
  match ps with
  | [] => [{| c_fun := idx; c_in := seen; c_nres := nres |}]
  | p :: r =>
      (if p_default p then [{| c_fun := idx; c_in := seen; c_nres := nres |}] else [])
      ++ calls_of idx nres (seen ++ [p]) r
  end.

(* CXX_subprogram is taken from the FIRST overload and handed to every LuaFunction: the number of
   results of every variation is that of the first overload *)
Fixpoint all_calls_from (nres : nat) (idx : nat) (ovs : list lfun) : list lcall :=
  match ovs with
  | [] => []
  | f :: r => calls_of idx nres [] (f_params f) ++ all_calls_from nres (S idx) r
  end.
Definition all_calls (ovs : list lfun) : list lcall :=
  all_calls_from (match ovs with f :: _ => if f_result f then 1 else 0 | [] => 0 end) 0 ovs.

(* what the generated function does *)
Inductive louter :=
| LCalls (cs : list (lcall * list nat)) (nres : nat)   (* calls made, each with the stack index read per argument *)
| LError.

(* [first_arg] = stack index of the first user argument as do_function numbers it;
   [count_off] = what is subtracted from lua_gettop before the switch;
   [type_off]  = offset added to the argument number in lua_type(L, i) *)
Record layout := { first_arg : nat; count_off : nat; type_off : nat }.

Definition idxs (lay : layout) (n : nat) : list nat := map (fun k => first_arg lay + k) (seq 0 n).

Fixpoint types_match (lay : layout) (stack : list ltag) (k : nat) (ps : list lparam) : bool :=
  match ps with
  | [] => true
  | p :: r =>
      match nth_error stack (type_off lay + k) with
      | Some t => ltag_eqb t (p_tag p) && types_match lay stack (S k) r
      | None => false
      end
  end.

Definition dispatch (lay : layout) (ovs : list lfun) (stack : list ltag) : louter :=
  let calls := all_calls ovs in
  match calls with
  | [c] => LCalls [(c, idxs lay (length (c_in c)))] (c_nres c)          (* single call: no checks at all *)
  | _ =>
      let nargs := length stack - count_off lay in
      let cands := filter (fun c => Nat.eqb (length (c_in c)) nargs) calls in
      match cands with
      | [] => LError                                                   (* default: *)
      | _ =>
          if Nat.eqb nargs 0
          then (* case 0: every zero-argument variation is emitted as its own block; the last sets SH_nresult *)
               LCalls (map (fun c => (c, [])) cands) (c_nres (last cands {| c_fun := 0; c_in := []; c_nres := 0 |}))
          else match find (fun c => types_match lay stack 0 (c_in c)) cands with
               | Some c => LCalls [(c, idxs lay (length (c_in c)))] (c_nres c)
               | None => LError
               end
      end
  end.

(* the layouts wrapl.py uses: free functions and constructors find their first argument at stack
   index 1; a method is called as obj:method(args), so the object is at index 1, the first argument
   at index 2, and the object is not counted (after the repair of wrapl.py, see known_findings.json) *)
Definition lay_function : layout := {| first_arg := 1; count_off := 0; type_off := 0 |}.
Definition lay_method : layout := {| first_arg := 2; count_off := 1; type_off := 1 |}.
