(* Model/Registry.v — abstract model of a Python process running Shroud several times:
   process-wide registries (module / class level mutable objects), a run = the driver's
   re-initialisation followed by the body.  The body is opaque (a section variable). *)
From Coq Require Import List Bool.
Import ListNotations.

Section Runs.
  Variables regs input output : Type.
  Variable fresh : regs.                          (* registry contents after import *)
  Variable reinit : regs -> input -> regs.        (* what main_with_args (re)builds before it is read *)
  Variable body : regs -> input -> regs * output. (* the rest of the run *)

  Definition run (s : regs) (x : input) : regs * output := body (reinit s x) x.

  Fixpoint after (s : regs) (h : list input) : regs :=
    match h with [] => s | x :: r => after (fst (run s x)) r end.

  Definition output_after (h : list input) (x : input) : output := snd (run (after fresh h) x).
End Runs.

(* regenerated registry table rows *)
Record regrow := { rg_module : nat; rg_mutated : bool; rg_accumulates : bool }.
