(* Model/WrapFlags.v — ast.WrapFlags, PromoteWrap.accumulate and the emitter sequencing of
   main.main_with_args (which emitters run, hence which kinds of file exist). *)
From Coq Require Import List Bool.
Import ListNotations.

Record wflags := { w_c : bool; w_fortran : bool; w_python : bool; w_lua : bool }.

Definition wor (a b : wflags) : wflags :=
  {| w_c := w_c a || w_c b; w_fortran := w_fortran a || w_fortran b;
     w_python := w_python a || w_python b; w_lua := w_lua a || w_lua b |}.

(* a declaration tree: functions / enums / typedefs / variables are leaves *)
Inductive dnode := Leaf (w : wflags) | Container (own : wflags) (kids : list dnode).

(* PromoteWrap: container.wrap.accumulate(child.wrap) after visiting the child *)
Fixpoint promote (n : dnode) : wflags :=
  match n with
  | Leaf w => w
  | Container own kids => fold_left (fun acc k => wor acc (promote k)) kids own
  end.

Inductive fkind := KC | KFortran | KPython | KLua.
Definition flag_of (k : fkind) (w : wflags) : bool :=
  match k with KC => w_c w | KFortran => w_fortran w | KPython => w_python w | KLua => w_lua w end.

(* main_with_args: "if wrap.c: clibrary.wrap_library()" ... ; the kinds of wrapper file that exist *)
Definition emitted (lib : dnode) (k : fkind) : bool := flag_of k (promote lib).

Fixpoint any_on (k : fkind) (n : dnode) : bool :=
  match n with
  | Leaf w => flag_of k w
  | Container own kids => flag_of k own || existsb (any_on k) kids
  end.
