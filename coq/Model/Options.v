(* Model/Options.v — the value main.main_with_args stores for `--option name=value`
   (main.py: "Add options from command line last"), and how it merges with the YAML options. *)
From Coq Require Import List NArith ZArith Bool String.
From Shroud Require Import Base.Ustr Model.Splicer Model.Scope.
Import ListNotations.

Inductive oval := VBool (b : bool) | VInt (z : Z) | VStr (s : ustr).

(* Python int(text) for base-10 text: surrounding white space, optional sign, digits with single
   underscores between digits (ASCII digits only; other Unicode decimal digits are not modelled). *)
Definition is_digit (c : N) : bool := (48 <=? c)%N && (c <=? 57)%N.

Fixpoint dv (ds : ustr) (acc : N) (prev_digit : bool) : option N :=
  match ds with
  | [] => if prev_digit then Some acc else None
  | c :: r =>
      if is_digit c then dv r (10 * acc + (c - 48))%N true
      else if (c =? 95)%N && prev_digit then
        match r with [] => None | _ => dv r acc false end
      else None
  end.

Definition py_int (s : ustr) : option Z :=
  match rstrip (lstrip s) with
  | c :: r =>
      if (c =? 45)%N then option_map (fun n => Z.opp (Z.of_N n)) (dv r 0%N false)
      else if (c =? 43)%N then option_map Z.of_N (dv r 0%N false)
      else option_map Z.of_N (dv (c :: r) 0%N false)
  | [] => None
  end.

Definition cli_value (s : ustr) : oval :=
  if ueqb s (cp "true") || ueqb s (cp "True") then VBool true
  else if ueqb s (cp "false") || ueqb s (cp "False") then VBool false
  else match py_int s with
       | Some z => VInt z
       | None => VStr s
       end.

(* what a user types on the command line for a value written in the YAML file *)
Definition N_digit (n : N) : N := (48 + n)%N.
Fixpoint pos_digits (fuel : nat) (n : N) (acc : ustr) : ustr :=
  match fuel with
  | O => acc
  | S f => let acc' := N_digit (n mod 10) :: acc in
           if (n / 10 =? 0)%N then acc' else pos_digits f (n / 10)%N acc'
  end.
Definition decimal (z : Z) : ustr :=
  match z with
  | Z0 => cp "0"
  | Zpos p => pos_digits (S (Pos.to_nat p)) (Npos p) []
  | Zneg p => 45%N :: pos_digits (S (Pos.to_nat p)) (Npos p) []
  end.
Definition typed (v : oval) : ustr :=
  match v with
  | VBool true => cp "true"
  | VBool false => cp "false"
  | VInt z => decimal z
  | VStr s => s
  end.
