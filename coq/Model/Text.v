(* Model/Text.v — executable model of shroud/util.py WrapperMixin.write_continue
   and write_lines.  Definitions only; proofs are in Proof/Text.v. *)
From Coq Require Import List NArith ZArith Bool Arith.
From Shroud Require Import Base.Ustr.
Import ListNotations.

Definition TAB : N := 9%N.
Definition LF : N := 10%N.
Definition FF : N := 12%N.
Definition CR : N := 13%N.

Inductive part := PText (s : ustr) | PFF.

Definition flush (cur : ustr) : list part :=
  match cur with [] => [] | _ => [PText (rev cur)] end.

(* "Find tabs and formfeeds" loop of write_continue *)
Fixpoint split_aux (cur : ustr) (l : ustr) : list part :=
  match l with
  | [] => flush cur
  | c :: r =>
      if N.eqb c TAB then flush cur ++ split_aux [] r
      else if N.eqb c FF then flush cur ++ PFF :: split_aux [] r
      else split_aux (c :: cur) r
  end.
Definition split_parts (l : ustr) : list part := split_aux [] l.

Record wparams := {
  linelen : nat;      (* self.linelen *)
  indent : Z;         (* self.indent (may be negative: str * negative = "") *)
  spaces : ustr;      (* spaces argument *)
  cont : ustr         (* self.cont *)
}.

Definition ind (p : wparams) (extra : Z) : ustr :=
  repeat_str (spaces p) (Z.to_nat (indent p + extra)).

(* Structured state: the line under construction is base ++ concat pieces;
   [done] holds the dumped lines, newest first. *)
Record st := { base : ustr; pieces : list ustr; done : list (ustr * list ustr) }.

Definition cur_len (s : st) : nat := length (base s) + length (concat (pieces s)).

Definition step (p : wparams) (ci : Z) (s : st) (pt : part) : st :=
  match pt with
  | PFF => {| base := ind p ci; pieces := []; done := (base s, pieces s) :: done s |}
  | PText t =>
      if Nat.ltb (linelen p) (cur_len s + length t) && Nat.ltb 0 (length (pieces s))
      then let t' := lstrip t in
           {| base := ind p ci;
              pieces := match t' with [] => [] | _ => [t'] end;
              done := (base s, pieces s) :: done s |}
      else {| base := base s; pieces := pieces s ++ [t]; done := done s |}
  end.

Definition run (p : wparams) (ci : Z) (parts : list part) : st :=
  fold_left (step p ci) parts {| base := ind p 0; pieces := []; done := [] |}.

Definition render_line (l : ustr * list ustr) : ustr := fst l ++ concat (snd l).

(* physical lines, oldest first; every dumped line gets the continuation marker *)
Definition render (p : wparams) (s : st) : list ustr :=
  map (fun l => render_line l ++ cont p) (rev (done s)) ++ [render_line (base s, pieces s)].

(* the body of write_continue after the line[0] test *)
Definition wc_body (p : wparams) (line : ustr) : st :=
  match line with
  | c :: r => if N.eqb c CR then run p 2 (split_parts r) else run p 1 (split_parts line)
  | [] => run p 1 []
  end.

Definition write_continue (p : wparams) (line : ustr) : result (list ustr) :=
  match line with
  | [] => Crash IndexError                      (* line[0] on "" *)
  | _ => Ok (render p (wc_body p line))
  end.

(* ---- write_lines ---- *)
Inductive oline := OInt (d : Z) | OStr (s : ustr).

Definition HASH : N := 35%N.
Definition AT : N := 64%N.
Definition CARET : N := 94%N.
Definition PLUS : N := 43%N.
Definition MINUS : N := 45%N.

Definition with_indent (p : wparams) (i : Z) : wparams :=
  {| linelen := linelen p; indent := i; spaces := spaces p; cont := cont p |}.

Definition last_is (c : N) (s : ustr) : bool :=
  match rev s with x :: _ => N.eqb x c | [] => false end.

(* strip leading '-' characters, counting them; Crash when the line is consumed
   ( subline[0] on "" ) *)
Fixpoint strip_minus (s : ustr) (n : Z) : option (ustr * Z) :=
  match s with
  | [] => None
  | c :: r => if N.eqb c MINUS then strip_minus r (n + 1) else Some (s, n)
  end.

(* one subline: returns emitted physical lines and the new indent *)
Definition write_subline (p : wparams) (i : Z) (s : ustr) : result (list ustr * Z) :=
  match s with
  | [] => Ok ([[]], i)
  | c :: r =>
      if N.eqb c HASH then Ok ([s], i)
      else if N.eqb c AT then
        bind (write_continue (with_indent p i) r) (fun o => Ok (o, i))
      else if N.eqb c CARET then Ok ([r], i)
      else if N.eqb c PLUS then
        let i1 := (i + 1)%Z in
        if last_is MINUS s then
          (* subline[1:-1] : note for s = "+" alone subline[-1] is '+' *)
          bind (write_continue (with_indent p i1) (removelast r)) (fun o => Ok (o, i))
        else
          bind (write_continue (with_indent p i1) r) (fun o => Ok (o, i1))
      else
        match strip_minus s 0 with
        | None => Crash IndexError
        | Some (t, n) =>
            let i1 := (i - n)%Z in
            if last_is PLUS t then
              bind (write_continue (with_indent p i1) (removelast t)) (fun o => Ok (o, (i1 + 1)%Z))
            else
              bind (write_continue (with_indent p i1) t) (fun o => Ok (o, i1))
        end
  end.

Fixpoint write_sublines (p : wparams) (i : Z) (ss : list ustr) : result (list ustr * Z) :=
  match ss with
  | [] => Ok ([], i)
  | s :: r =>
      bind (write_subline p i s) (fun o1 =>
      bind (write_sublines p (snd o1) r) (fun o2 =>
      Ok (fst o1 ++ fst o2, snd o2)))
  end.

Fixpoint write_lines_from (p : wparams) (i : Z) (ls : list oline) : result (list ustr * Z) :=
  match ls with
  | [] => Ok ([], i)
  | OInt d :: r => write_lines_from p (i + d)%Z r
  | OStr s :: r =>
      bind (write_sublines p i (split_on LF s)) (fun o1 =>
      bind (write_lines_from p (snd o1) r) (fun o2 =>
      Ok (fst o1 ++ fst o2, snd o2)))
  end.

Definition write_lines (p : wparams) (ls : list oline) : result (list ustr * Z) :=
  write_lines_from p (indent p) ls.
