(* Model/Enum.v — executable model of the value loop of ast.EnumNode.__init__ (C_value / F_value),
   and the specification side: the integer a C++ compiler assigns to each enumerator. *)
From Coq Require Import List NArith ZArith Bool Arith String.
From Shroud Require Import Base.Ustr Model.Splicer Model.Scope Model.Options Model.Lexer Model.Expr.
Import ListNotations.

Inductive eval := VI (z : Z) | VT (s : ustr).       (* Python int or str *)
Definition show (v : eval) : ustr := match v with VI z => decimal z | VT s => s end.

Record estate := { cvalue : eval; fvalue : eval; is_int : bool; cbase : ustr; fbase : ustr; incr : Z }.
Record member_out := { mo_name : ustr; mo_cvalue : option ustr; mo_fvalue : ustr }.

Definition plus_text (b : ustr) (k : Z) : ustr := b ++ cp "+" ++ decimal k.

(* one iteration of "for member in ast.members" *)
Definition estep (csym fsym : list (ustr * ustr)) (st : estate) (m : ustr * option expr) : estate * member_out :=
  let st1 :=
    match snd m with
    | None => st
    | Some e =>
        match py_int (print_expr e) with
        | Some z => {| cvalue := VI z; fvalue := VI z; is_int := true; cbase := cbase st; fbase := fbase st; incr := incr st |}
        | None =>
            let c := print_ident csym e in
            let f := print_ident fsym e in
            {| cvalue := VT c; fvalue := VT f; is_int := false; cbase := c; fbase := f; incr := 0 |}
        end
    end in
  let out := {| mo_name := fst m;
                mo_cvalue := match snd m with Some _ => Some (show (cvalue st1)) | None => None end;
                mo_fvalue := show (fvalue st1) |} in
  let st2 :=
    if is_int st1 then
      match cvalue st1 with
      | VI z => {| cvalue := VI (z + 1); fvalue := VI (z + 1); is_int := true; cbase := cbase st1; fbase := fbase st1; incr := incr st1 |}
      | VT _ => st1  (* unreachable: is_int implies an int value *)
      end
    else
      let k := (incr st1 + 1)%Z in
      {| cvalue := VT (plus_text (cbase st1) k); fvalue := VT (plus_text (fbase st1) k); is_int := false;
         cbase := cbase st1; fbase := fbase st1; incr := k |} in
  (st2, out).

Definition einit : estate := {| cvalue := VI 0; fvalue := VI 0; is_int := true; cbase := []; fbase := []; incr := 0 |}.

Fixpoint derive_from (csym fsym : list (ustr * ustr)) (st : estate) (ms : list (ustr * option expr)) : list member_out :=
  match ms with
  | [] => []
  | m :: r => let '(st', o) := estep csym fsym st m in o :: derive_from csym fsym st' r
  end.
Definition derive csym fsym ms := derive_from csym fsym einit ms.

(* ---------------- specification side ---------------- *)
(* value of an integer literal as C and C++ read it: leading 0 = octal *)
Fixpoint digits_val (base : N) (ds : ustr) (acc : N) : option N :=
  match ds with
  | [] => Some acc
  | c :: r => if is_dig c && (c - 48 <? base)%N then digits_val base r (acc * base + (c - 48))%N else None
  end.
Definition c_literal (v : ustr) : option Z :=
  match v with
  | [] => None
  | [c] => option_map Z.of_N (digits_val 10 [c] 0)
  | c :: r => if (c =? 48)%N then option_map Z.of_N (digits_val 8 r 0)
              else option_map Z.of_N (digits_val 10 v 0)
  end.
(* Fortran reads the same digits as decimal *)
Definition f_literal (v : ustr) : option Z := option_map Z.of_N (digits_val 10 v 0).

Fixpoint env_get (n : ustr) (env : list (ustr * Z)) : option Z :=
  match env with
  | [] => None
  | (k, v) :: r => if ueqb n k then Some v else env_get n r
  end.

Definition is_op (c : N) (op : ustr) : bool := match op with [x] => (x =? c)%N | _ => false end.

(* integer expression value; [lit] is the language's reading of literals.
   '/' truncates toward zero in C, C++ and Fortran. *)
Fixpoint eval_expr (lit : ustr -> option Z) (env : list (ustr * Z)) (e : expr) : option Z :=
  match e with
  | EConst v => lit v
  | EIdent n None => env_get n env
  | EIdent _ (Some _) => None
  | EParen x => eval_expr lit env x
  | EUn op x =>
      match eval_expr lit env x with
      | Some z => if is_op 45 op then Some (- z)%Z else if is_op 43 op then Some z else None
      | None => None
      end
  | EBin l op r =>
      match eval_expr lit env l, eval_expr lit env r with
      | Some a, Some b =>
          if is_op 43 op then Some (a + b)%Z
          else if is_op 45 op then Some (a - b)%Z
          else if is_op 42 op then Some (a * b)%Z
          else if is_op 47 op then (if (b =? 0)%Z then None else Some (Z.quot a b))
          else None
      | _, _ => None
      end
  end.

(* the values a C++ compiler assigns: explicit value, else previous + 1 (first: 0) *)
Fixpoint cxx_values_from (env : list (ustr * Z)) (next : Z) (ms : list (ustr * option expr)) : option (list (ustr * Z)) :=
  match ms with
  | [] => Some []
  | (n, v) :: r =>
      match (match v with Some e => eval_expr c_literal env e | None => Some next end) with
      | Some z => option_map (cons (n, z)) (cxx_values_from ((n, z) :: env) (z + 1) r)
      | None => None
      end
  end.
Definition cxx_values ms := cxx_values_from [] 0%Z ms.
