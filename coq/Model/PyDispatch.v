(* Model/PyDispatch.v — executable model of the argument handling shroud/wrapp.py generates:
   PyArg_ParseTupleAndKeywords (abstracted: positional then keyword assignment against kwlist,
   '|' before the first defaulted parameter, one format unit per parameter), the switch over
   SH_nargs for default arguments, and multi_dispatch for overloads.  In-arguments only. *)
From Coq Require Import List NArith Bool Arith.
Import ListNotations.

Inductive ptag := PInt | PFloat | PBool | PStr.            (* Python value classes used by the harness *)
Inductive pfmt := FInt | FDouble | FBool | FStr.           (* i/l ; d ; O! with PyBool_Type ; s *)

(* what each format unit converts without TypeError (bool is a subclass of int) *)
Definition accepts (f : pfmt) (t : ptag) : bool :=
  match f, t with
  | FInt, PInt | FInt, PBool => true
  | FDouble, PInt | FDouble, PFloat | FDouble, PBool => true
  | FBool, PBool => true
  | FStr, PStr => true
  | _, _ => false
  end.

Record pparam := { pp_fmt : pfmt; pp_default : bool }.
Record pfun := { pf_params : list pparam }.

(* a call: positional values, keyword values with the parameter index their name denotes (None: no such name) *)
Record pcall := { pc_pos : list ptag; pc_kws : list (option nat * ptag) }.

Inductive psrc := SPos (i : nat) | SKw (j : nat) | SUninit.   (* where the C variable's value comes from *)
Inductive pout := PCalled (n : nat) (srcs : list psrc) | PTypeError | PValueError.

(* number of parameters before the '|' *)
Fixpoint required (ps : list pparam) : nat :=
  match ps with
  | [] => 0
  | p :: r => if pp_default p then 0 else S (required r)
  end.

Definition has_default (ps : list pparam) : bool := existsb pp_default ps.

Fixpoint find_kw (i : nat) (kws : list (option nat * ptag)) (j : nat) : option (nat * ptag) :=
  match kws with
  | [] => None
  | (Some k, t) :: r => if Nat.eqb k i then Some (j, t) else find_kw i r (S j)
  | (None, _) :: r => find_kw i r (S j)
  end.

(* per parameter: Some src | None (left untouched); or a TypeError *)
Fixpoint assign (ps : list pparam) (i : nat) (req : nat) (c : pcall) : option (list psrc) :=
  match ps with
  | [] => Some []
  | p :: r =>
      let here :=
        match nth_error (pc_pos c) i with
        | Some t => if accepts (pp_fmt p) t then Some (SPos i) else None
        | None =>
            match find_kw i (pc_kws c) 0 with
            | Some (j, t) => if accepts (pp_fmt p) t then Some (SKw j) else None
            | None => if Nat.ltb i req then None else Some SUninit
            end
        end in
      match here, assign r (S i) req c with
      | Some s, Some rest => Some (s :: rest)
      | _, _ => None
      end
  end.

Definition parse (ps : list pparam) (c : pcall) : option (list psrc) :=
  let npos := length (pc_pos c) in
  let total := npos + length (pc_kws c) in
  if Nat.ltb (length ps) total then None                                   (* takes at most N arguments *)
  else if existsb (fun kw => match fst kw with None => true | Some k => Nat.ltb k npos || Nat.leb (length ps) k end) (pc_kws c)
       then None                                                           (* unknown name / name and position *)
  else assign ps 0 (required ps) c.

Definition call_fn (f : pfun) (c : pcall) : pout :=
  let ps := pf_params f in
  match parse ps c with
  | None => PTypeError
  | Some srcs =>
      if has_default ps then
        let n := length (pc_pos c) + length (pc_kws c) in
        if Nat.leb (required ps) n && Nat.leb n (length ps) then PCalled n (firstn n srcs) else PValueError
      else PCalled (length ps) srcs
  end.

(* multi_dispatch: first overload whose argument-count window contains the count and that does not
   raise TypeError; an exception other than TypeError is propagated *)
Fixpoint py_multi (ovs : list pfun) (idx : nat) (c : pcall) : option (nat * pout) :=
  match ovs with
  | [] => None
  | f :: r =>
      let n := length (pc_pos c) + length (pc_kws c) in
      let ps := pf_params f in
      let inwin := if has_default ps then Nat.leb (required ps) n && Nat.leb n (length ps) else Nat.eqb n (length ps) in
      if inwin then
        match call_fn f c with
        | PTypeError => py_multi r (S idx) c
        | o => Some (idx, o)
        end
      else py_multi r (S idx) c
  end.

Definition py_dispatch (ovs : list pfun) (c : pcall) : option (nat * pout) :=
  match ovs with
  | [f] => Some (0, call_fn f c)
  | _ => match py_multi ovs 0 c with Some r => Some r | None => Some (0, PTypeError) end
  end.
