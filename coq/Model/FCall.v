(* Model/FCall.v — the call a generated Fortran specific makes to its bind(C) interface (wrapf.Wrapf.wrap_function_impl):
   for every parameter of the C interface, from which dummy argument and by which documented conversion the actual
   argument is formed; with a value semantics (trailing-blank trimming, lengths, extents, logical coercion, capsule). *)
From Coq Require Import List NArith ZArith Bool Arith String.
From Shroud Require Import Base.Ustr.
Import ListNotations.
Open Scope string_scope.

Inductive fconv :=
| FDirect       (* the dummy argument itself (scalars, arrays, character buffers) *)
| FCapsule      (* a%cxxmem : the capsule of a class instance *)
| FSelf         (* obj%cxxmem : the passed-object dummy *)
| FBool         (* logical coerced to logical(C_BOOL) in a local *)
| FLenTrim      (* len_trim(a, kind=C_INT) *)
| FLen          (* len(a, kind=C_INT) *)
| FSize         (* size(a, kind=C_INT) *)
| FTrimNull     (* trim(a)//C_NULL_CHAR *)
| FCLoc         (* C_LOC(a) *)
| FConvert      (* real(a, C_X) / int(a, C_X): the kind conversion of a fortran_generic variant *)
| FResult       (* result context / capsule local *)
| FLocal        (* another local of the wrapper (hidden arguments) *)
| FUnknown.

(* declared kind of a dummy argument *)
Inductive dkind := DNum | DLog | DChar | DArr | DObj | DOther.

Record fcall := {
  fc_name : string;
  fc_dummies : list string;              (* dummy arguments of the Fortran specific *)
  fc_kinds : list (string * dkind);      (* their declared kinds *)
  fc_params : list string;               (* parameter names of the bind(C) interface, in order *)
  fc_args : list (fconv * string);       (* actual arguments of the call, in order: conversion, dummy (or local) *)
  fc_outputs : list string;              (* dummy arguments declared intent(out) or intent(inout) *)
  fc_copyback : list string              (* dummy arguments assigned from their local after the call *)
}.

Definition mem (s : string) (l : list string) : bool := existsb (String.eqb s) l.
Definition fconv_eqb (a b : fconv) : bool :=
  match a, b with
  | FDirect, FDirect | FCapsule, FCapsule | FSelf, FSelf | FBool, FBool | FLenTrim, FLenTrim | FLen, FLen | FSize, FSize
  | FTrimNull, FTrimNull | FCLoc, FCLoc | FResult, FResult | FLocal, FLocal | FConvert, FConvert => true
  | _, _ => false
  end.
Definition passes_value (c : fconv) : bool :=
  match c with FDirect | FCapsule | FBool | FTrimNull | FCLoc | FConvert => true | _ => false end.

(* the name of a length / size parameter: prefix letter + dummy name (C_var_trim / C_var_len / C_var_size templates) *)
Definition prefixed (pfx : string) (p : string) (ds : list string) : option string :=
  match p with
  | String c rest => if String.eqb (String c EmptyString) pfx && mem rest ds then Some rest else None
  | EmptyString => None
  end.

Fixpoint kind_of (n : string) (ks : list (string * dkind)) : dkind :=
  match ks with [] => DOther | (k, v) :: r => if String.eqb n k then v else kind_of n r end.

(* the conversion that passes a dummy of a given kind *)
Definition conv_for (k : dkind) (c : fconv) : bool :=
  match k, c with
  | DNum, FDirect | DNum, FConvert | DLog, FBool | DChar, FDirect | DChar, FTrimNull | DArr, FDirect | DArr, FCLoc | DObj, FCapsule => true
  | DOther, c => passes_value c
  | _, _ => false
  end.

(* what the interface parameter p must be fed with *)
Definition arg_ok (ks : list (string * dkind)) (ds : list string) (p : string) (a : fconv * string) : bool :=
  let '(c, r) := a in
  if String.eqb p "self" then fconv_eqb c FSelf
  else if mem p ds then conv_for (kind_of p ks) c && String.eqb r p
  else match prefixed "L" p ds, prefixed "N" p ds, prefixed "S" p ds with
       | Some d, _, _ => fconv_eqb c FLenTrim && String.eqb r d
       | None, Some d, _ => fconv_eqb c FLen && String.eqb r d
       | None, None, Some d => fconv_eqb c FSize && String.eqb r d
       | None, None, None =>
           (* result context, hidden locals, or an implied value computed from a dummy argument *)
           fconv_eqb c FResult || fconv_eqb c FLocal || ((fconv_eqb c FSize || fconv_eqb c FLen || fconv_eqb c FLenTrim) && mem r ds)
       end.

Fixpoint args_ok (ks : list (string * dkind)) (ds ps : list string) (args : list (fconv * string)) : bool :=
  match ps, args with
  | [], [] => true
  | p :: ps', a :: args' => arg_ok ks ds p a && args_ok ks ds ps' args'
  | _, _ => false
  end.

(* an output dummy reaches the C function through its own storage, or through a local that is copied back afterwards *)
Definition by_ref (c : fconv) : bool := match c with FDirect | FCLoc | FCapsule | FSelf => true | _ => false end.
Definition out_ok (outs cb : list string) (a : fconv * string) : bool :=
  let '(c, r) := a in
  if mem r outs && passes_value c then by_ref c || (fconv_eqb c FBool && mem r cb) else true.
Definition outs_ok (f : fcall) : bool := forallb (out_ok (fc_outputs f) (fc_copyback f)) (fc_args f).

(* a character dummy handed to C as its own storage is blank padded, not NUL terminated: the same call must also pass its
   length (len_trim(name) or len(name): the bufferify interface; the parameter's name is the user's choice through +len /
   +len_trim); without one the documented form is trim(name)//C_NULL_CHAR *)
Definition has_length (args : list (fconv * string)) (p : string) : bool :=
  existsb (fun a => (fconv_eqb (fst a) FLen || fconv_eqb (fst a) FLenTrim) && String.eqb (snd a) p) args.
Definition char_ok (ks : list (string * dkind)) (ds : list string) (args : list (fconv * string)) (pa : string * (fconv * string)) : bool :=
  let '(p, (c, _)) := pa in
  match kind_of p ks, c with
  | DChar, FDirect => negb (mem p ds) || has_length args p
  | _, _ => true
  end.
Definition chars_ok (f : fcall) : bool :=
  forallb (char_ok (fc_kinds f) (fc_dummies f) (fc_args f)) (combine (fc_params f) (fc_args f)).

Definition fcall_ok (f : fcall) : bool :=
  args_ok (fc_kinds f) (fc_dummies f) (fc_params f) (fc_args f) && outs_ok f && chars_ok f.

(* what the caller's variable holds after the call, when the C function stored [stored r] through the argument it was given *)
Definition caller_sees (f : fcall) (stored before : string -> nat) (r : string) : nat :=
  if existsb (fun a => by_ref (fst a) && String.eqb (snd a) r) (fc_args f) then stored r
  else if existsb (fun a => fconv_eqb (fst a) FBool && String.eqb (snd a) r) (fc_args f) && mem r (fc_copyback f) then stored r
  else before r.


(* ---- values ---- *)
Inductive fval := VNum (z : Z) | VLog (b : bool) | VChar (s : ustr) (* a character value of its declared length *)
                | VArr (l : list Z) | VObj (id : nat) | VNone.
Inductive cact := ANum (z : Z) | ABool (b : bool) | AText (s : ustr) (* address of these characters, not terminated *)
                | ACStr (s : ustr) (* NUL-terminated copy *) | AArr (l : list Z) | ACap (id : nat) | AOther.

Definition has_kind (k : dkind) (v : fval) : Prop :=
  match k, v with
  | DNum, VNum _ | DLog, VLog _ | DChar, VChar _ | DArr, VArr _ | DObj, VObj _ => True
  | _, _ => False
  end.

Definition blank : N := 32%N.
Fixpoint drop_blanks (s : ustr) : ustr := match s with c :: r => if (c =? blank)%N then drop_blanks r else s | [] => [] end.
Definition rtrim (s : ustr) : ustr := rev (drop_blanks (rev s)).

Definition fsem (c : fconv) (v : fval) : cact :=
  match c, v with
  | FDirect, VNum z => ANum z
  | FConvert, VNum z => ANum z             (* a value representable in both kinds *)
  | FDirect, VChar s => AText s
  | FDirect, VArr l => AArr l
  | FCLoc, VArr l => AArr l
  | FBool, VLog b => ABool b
  | (FCapsule | FSelf), VObj id => ACap id
  | FLenTrim, VChar s => ANum (Z.of_nat (List.length (rtrim s)))
  | FLen, VChar s => ANum (Z.of_nat (List.length s))
  | FSize, VArr l => ANum (Z.of_nat (List.length l))
  | FTrimNull, VChar s => ACStr (rtrim s)
  | _, _ => AOther
  end.

Fixpoint flookup (n : string) (env : list (string * fval)) : fval :=
  match env with [] => VNone | (k, v) :: r => if String.eqb n k then v else flookup n r end.

(* the actual arguments the C function is called with *)
Definition actuals (f : fcall) (env : list (string * fval)) : list cact :=
  map (fun a => fsem (fst a) (flookup (snd a) env)) (fc_args f).

(* the documented meaning of an interface parameter, given the caller's values of the dummy arguments *)
Definition documented (ds : list string) (env : list (string * fval)) (p : string) : option cact :=
  if String.eqb p "self" then None          (* the object: see self_is_the_passed_object *)
  else if mem p ds then
    match flookup p env with
    | VNum z => Some (ANum z) | VLog b => Some (ABool b) | VArr l => Some (AArr l) | VObj id => Some (ACap id)
    | VChar s => None                (* character: either the buffer itself or its trimmed, terminated copy; see the length rules *)
    | VNone => None
    end
  else match prefixed "L" p ds, prefixed "N" p ds, prefixed "S" p ds with
       | Some d, _, _ => match flookup d env with VChar s => Some (ANum (Z.of_nat (List.length (rtrim s)))) | _ => None end
       | None, Some d, _ => match flookup d env with VChar s => Some (ANum (Z.of_nat (List.length s))) | _ => None end
       | None, None, Some d => match flookup d env with VArr l => Some (ANum (Z.of_nat (List.length l))) | _ => None end
       | _, _, _ => None
       end.
