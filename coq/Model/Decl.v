(* Model/Decl.v — executable model of declast.Parser (declaration_specifier, nested_namespace,
   parse_template_arguments, declaration, declarator, pointer, parameter_list, initializer, attribute,
   get_canonical_typemap, decl_statement for declarations and the class / namespace / template / struct
   statements).  Python exceptions that are not diagnostics are explicit [Crash] results. *)
From Coq Require Import List NArith ZArith Bool Arith String.
From Shroud Require Import Base.Ustr Model.Splicer Model.Lexer Model.Expr.
Import ListNotations.

(* ---- symbol table as the parser sees it ---- *)
Inductive skind := KScope        (* LibraryNode / NamespaceNode / ClassNode: has qualified_lookup *)
                 | KLeaf         (* typedef, enum ...: AstNode.qualified_lookup is the "virtual" one *)
                 | KParam.       (* declast.TemplateParam: no qualified_lookup attribute at all *)
(* the node's .typemap: attribute missing (a namespace), None, or a typemap with a name *)
Inductive tmref := TmMissing | TmNone | TmName (n : ustr).
Inductive sym := Sym (id : nat) (kind : skind) (tname : tmref) (members : list (ustr * sym)).

Record pctx := {
  cur_id : nat;                    (* identity of self.namespace *)
  cur_is_class : bool;
  cur_name : ustr;
  scope : list (ustr * sym);       (* unqualified_lookup from self.namespace, for every name in reach *)
  known_types : list ustr          (* names typemap.lookup_type accepts *)
}.

Fixpoint sym_lookup (n : ustr) (l : list (ustr * sym)) : option sym :=
  match l with
  | [] => None
  | (k, v) :: r => if ueqb n k then Some v else sym_lookup n r
  end.

(* ---- AST ---- *)
Record ptr := { p_ptr : ustr; p_const : bool; p_volatile : bool }.
Inductive declarator := Dtor (pointer : list ptr) (name : option ustr) (func : option declarator).
Inductive attrval := AVTrue | AVStr (s : ustr) | AVInt (s : ustr) | AVReal (s : ustr) | AVNone.

Inductive decl :=
  Decl (specifier : list ustr) (storage : list ustr) (is_const is_volatile : bool) (typemap : ustr)
       (dtor : option declarator) (params : option (list decl)) (array : list expr)
       (attrs : list (ustr * attrval)) (init : attrval) (targs : list decl) (func_const : bool).

Inductive stmt :=
| SDecl (d : decl)
| SClass (name : ustr) (bases : list (ustr * ustr))
| SNamespace (name : ustr)
| STemplate (params : list ustr) (body : stmt)
| SStruct (name : ustr) (members : list decl)
| SEnum (e : enum_ast).

Definition ustr_in (s : ustr) (l : list ustr) : bool := existsb (ueqb s) l.

(* canonical_typemap *)
Definition canonical (n : ustr) : ustr :=
  if ueqb n (cp "short_int") then cp "short"
  else if ueqb n (cp "long_int") then cp "long"
  else if ueqb n (cp "long_long_int") then cp "long_long"
  else if ueqb n (cp "unsigned_short_int") then cp "unsigned_short"
  else if ueqb n (cp "unsigned_long_int") then cp "unsigned_long"
  else if ueqb n (cp "unsigned_long_long_int") then cp "unsigned_long_long"
  else if ueqb n (cp "unsigned") then cp "unsigned_int"
  else if ueqb n (cp "complex_double") then cp "double_complex"
  else if ueqb n (cp "complex_float") then cp "float_complex"
  else n.

Fixpoint join_us (l : list ustr) : ustr :=
  match l with [] => [] | [x] => x | x :: r => x ++ 95%N :: join_us r end.
Fixpoint join_colons (l : list ustr) : ustr :=
  match l with [] => [] | [x] => x | x :: r => x ++ 58%N :: 58%N :: join_colons r end.

Definition tk_of (ts : list tok) : tkind := match ts with t :: _ => tk t | [] => EOF end.
Definition tv_of (ts : list tok) : ustr := match ts with t :: _ => tv t | [] => [] end.

(* attribute list with dict semantics: later entries replace earlier ones in place *)
Fixpoint attr_set (k : ustr) (v : attrval) (l : list (ustr * attrval)) : list (ustr * attrval) :=
  match l with
  | [] => [(k, v)]
  | (k', v') :: r => if ueqb k k' then (k, v) :: r else (k', v') :: attr_set k v r
  end.

(* initializer: never fails; consumes at most one token *)
Definition initializer (ts : list tok) : attrval * list tok :=
  match ts with
  | t :: r =>
      match tk t with
      | REAL => (AVReal (tv t), r)
      | INTEGER => (AVInt (tv t), r)
      | DQUOTE | SQUOTE | ID => (AVStr (tv t), r)
      | _ => (AVNone, ts)
      end
  | [] => (AVNone, ts)
  end.

(* "+name(...)" : collect token values until the parenthesis closes; EOF -> RuntimeError *)
Fixpoint collect_paren (fuel : nat) (depth : nat) (acc : ustr) (ts : list tok) : result (ustr * list tok) :=
  match fuel with
  | O => OutOfFuel
  | S f =>
      match ts with
      | [] => Reject (cp "Unbalanced parens in attribute")
      | t :: r =>
          match tk t with
          | LPAREN => collect_paren f (S depth) (acc ++ tv t) r
          | RPAREN => match depth with
                      | O => Ok (acc, r)            (* unreachable: depth starts at 1 *)
                      | S O => Ok (acc, r)
                      | S d => collect_paren f d (acc ++ tv t) r
                      end
          | _ => collect_paren f depth (acc ++ tv t) r
          end
      end
  end.

Fixpoint p_attribute (fuel : nat) (attrs : list (ustr * attrval)) (ts : list tok) : result (list (ustr * attrval) * list tok) :=
  match fuel with
  | O => OutOfFuel
  | S f =>
      if peek PLUS ts then
        bind (mustbe ID (tl ts)) (fun nm =>
        let name := tv (fst nm) in
        let ts1 := snd nm in
        if peek LPAREN ts1 then
          bind (collect_paren f 1 [] (tl ts1)) (fun x => p_attribute f (attr_set name (AVStr (fst x)) attrs) (snd x))
        else if peek EQUALS ts1 then
          let '(v, ts2) := initializer (tl ts1) in p_attribute f (attr_set name v attrs) ts2
        else p_attribute f (attr_set name AVTrue attrs) ts1)
      else Ok (attrs, ts)
  end.

(* pointer: { (STAR | REF) {TYPE_QUALIFIER}* }* : qualifiers apply to the pointer just read *)
Definition set_last_qual (v : ustr) (ps : list ptr) : list ptr :=
  match rev ps with
  | [] => []
  | p :: r => rev r ++ [if ueqb v (cp "const") then {| p_ptr := p_ptr p; p_const := true; p_volatile := p_volatile p |}
                        else {| p_ptr := p_ptr p; p_const := p_const p; p_volatile := true |}]
  end.

Fixpoint p_pointer (acc : list ptr) (ts : list tok) : list ptr * list tok :=
  match ts with
  | t :: r =>
      match tk t with
      | STAR | REF => p_pointer (acc ++ [{| p_ptr := tv t; p_const := false; p_volatile := false |}]) r
      | TYPE_QUALIFIER => match acc with [] => (acc, ts) | _ => p_pointer (set_last_qual (tv t) acc) r end
      | _ => (acc, ts)
      end
  | [] => (acc, ts)
  end.

Fixpoint p_declarator (fuel : nat) (ts : list tok) : result (option declarator * list tok) :=
  match fuel with
  | O => OutOfFuel
  | S f =>
      let '(ptrs, ts1) := p_pointer [] ts in
      match ts1 with
      | t :: r =>
          match tk t with
          | ID => Ok (Some (Dtor ptrs (Some (tv t)) None), r)
          | LPAREN =>
              bind (p_declarator f r) (fun x =>
              bind (mustbe RPAREN (snd x)) (fun y =>
              (* node.func = self.declarator() may be None: an empty "( )" *)
              Ok (Some (Dtor ptrs None (fst x)), snd y)))
          | _ => Ok (match ptrs with [] => None | _ => Some (Dtor ptrs None None) end, ts1)
          end
      | [] => Ok (match ptrs with [] => None | _ => Some (Dtor ptrs None None) end, ts1)
      end
  end.

(* nested_namespace: after the first ID has been consumed; ns = the symbol found so far *)
Fixpoint p_nested (fuel : nat) (ns : sym) (names : list ustr) (ts : list tok) : result (sym * list ustr * list tok) :=
  match fuel with
  | O => OutOfFuel
  | S f =>
      if peek NAMESPACE ts then
        bind (mustbe ID (tl ts)) (fun nm =>
        (* qualified_lookup: typedef / enum nodes and template parameters have no members (returns None) *)
        match sym_lookup (tv (fst nm)) (match ns with Sym _ KScope _ members => members | _ => [] end) with
        | None => Reject (cp "Symbol is not in namespace")
        | Some ns2 => p_nested f ns2 (names ++ [tv (fst nm)]) (snd nm)
        end)
      else Ok (ns, names, ts)
  end.

Record spec_state := { ss_spec : list ustr; ss_storage : list ustr; ss_const : bool; ss_volatile : bool;
                       ss_tm : option ustr; ss_targs : list decl; ss_ctor : bool; ss_dtor : option ustr }.

Definition decl_of (s : spec_state) (tm : ustr) dt params arr attrs init fc : decl :=
  Decl (ss_spec s) (ss_storage s) (ss_const s) (ss_volatile s) tm dt params arr attrs init (ss_targs s) fc.

Definition get_canonical (c : pctx) (s : spec_state) : result ustr :=
  match ss_tm s with
  | Some tm => Ok tm
  | None =>
      let n := canonical (join_us (ss_spec s)) in
      if ustr_in n (known_types c) then Ok n else Reject (cp "Unknown typemap")
  end.

(* the attribute marks of constructor / destructor *)
Definition ctor_attrs (s : spec_state) : list (ustr * attrval) :=
  match ss_dtor s with
  | Some n => [(cp "_name", AVStr (cp "dtor")); (cp "_destructor", AVStr n)]
  | None => if ss_ctor s then [(cp "_name", AVStr (cp "ctor")); (cp "_constructor", AVTrue)] else []
  end.

Fixpoint p_specifier (fuel : nat) (c : pctx) (found : bool) (s : spec_state) (ts : list tok) {struct fuel}
  : result (spec_state * list tok) :=
  match fuel with
  | O => OutOfFuel
  | S f =>
      match ts with
      | t :: r =>
          match tk t with
          | ID =>
              if found then Ok (s, ts)
              else match sym_lookup (tv t) (scope c) with
                   | None => Ok (s, ts)
                   | Some ns =>
                       bind (p_nested f ns [tv t] r) (fun x =>
                       let '(ns2, names, ts1) := x in
                       match ns2 with Sym _ _ TmMissing _ => Reject (cp "is not a type") | _ =>
                       let s1 := {| ss_spec := ss_spec s ++ [join_colons names]; ss_storage := ss_storage s; ss_const := ss_const s;
                                    ss_volatile := ss_volatile s; ss_tm := ss_tm s; ss_targs := ss_targs s;
                                    ss_ctor := ss_ctor s; ss_dtor := ss_dtor s |} in
                       bind (p_targs f c s1 ts1) (fun y =>
                       let '(s2, ts2) := y in
                       let '(Sym id2 _ tn2 _) := ns2 in
                       let is_ctor := cur_is_class c && Nat.eqb (cur_id c) id2 && peek LPAREN ts2 in
                           let s3 := {| ss_spec := ss_spec s2; ss_storage := ss_storage s2; ss_const := ss_const s2;
                                        ss_volatile := ss_volatile s2;
                                        ss_tm := match tn2 with TmName tm => Some tm | _ => None end; ss_targs := ss_targs s2;
                                        ss_ctor := is_ctor; ss_dtor := ss_dtor s2 |} in
                           if is_ctor then Ok (s3, ts2) else p_specifier f c true s3 ts2) end)
                   end
          | TYPE_SPECIFIER =>
              p_specifier f c found {| ss_spec := ss_spec s ++ [tv t]; ss_storage := ss_storage s; ss_const := ss_const s;
                                       ss_volatile := ss_volatile s; ss_tm := ss_tm s; ss_targs := ss_targs s;
                                       ss_ctor := ss_ctor s; ss_dtor := ss_dtor s |} r
          | TYPE_QUALIFIER =>
              if ueqb (tv t) (cp "const")
              then p_specifier f c found {| ss_spec := ss_spec s; ss_storage := ss_storage s; ss_const := true;
                                            ss_volatile := ss_volatile s; ss_tm := ss_tm s; ss_targs := ss_targs s;
                                            ss_ctor := ss_ctor s; ss_dtor := ss_dtor s |} r
              else p_specifier f c found {| ss_spec := ss_spec s; ss_storage := ss_storage s; ss_const := ss_const s;
                                            ss_volatile := true; ss_tm := ss_tm s; ss_targs := ss_targs s;
                                            ss_ctor := ss_ctor s; ss_dtor := ss_dtor s |} r
          | STORAGE_CLASS =>
              p_specifier f c found {| ss_spec := ss_spec s; ss_storage := ss_storage s ++ [tv t]; ss_const := ss_const s;
                                       ss_volatile := ss_volatile s; ss_tm := ss_tm s; ss_targs := ss_targs s;
                                       ss_ctor := ss_ctor s; ss_dtor := ss_dtor s |} r
          | _ => Ok (s, ts)
          end
      | [] => Ok (s, ts)
      end
  end
(* parse_template_arguments *)
with p_targs (fuel : nat) (c : pctx) (s : spec_state) (ts : list tok) {struct fuel} : result (spec_state * list tok) :=
  match fuel with
  | O => OutOfFuel
  | S f =>
      if peek LT ts then
        let ts1 := tl ts in
        if peek GT ts1 then Ok (s, tl ts1)
        else
          bind (p_decl_spec f c ts1) (fun x =>
          let '(s1, ts2) := x in
          bind (get_canonical c s1) (fun tm =>
          let d := decl_of s1 tm None None [] (ctor_attrs s1) AVNone false in
          let s' := {| ss_spec := ss_spec s; ss_storage := ss_storage s; ss_const := ss_const s; ss_volatile := ss_volatile s;
                       ss_tm := ss_tm s; ss_targs := ss_targs s ++ [d]; ss_ctor := ss_ctor s; ss_dtor := ss_dtor s |} in
          if peek COMMA ts2 then Reject (cp "Only single template argument accepted")
          else bind (mustbe GT ts2) (fun y => Ok (s', snd y))))
      else Ok (s, ts)
  end
(* declaration_specifier incl. the destructor prefix and the final "Expected TYPE_SPECIFIER" test *)
with p_decl_spec (fuel : nat) (c : pctx) (ts : list tok) {struct fuel} : result (spec_state * list tok) :=
  match fuel with
  | O => OutOfFuel
  | S f =>
      let s0 := {| ss_spec := []; ss_storage := []; ss_const := false; ss_volatile := false; ss_tm := None; ss_targs := [];
                   ss_ctor := false; ss_dtor := None |} in
      if peek TILDE ts then
        if negb (cur_is_class c) then Reject (cp "Destructor is not in a class")
        else bind (mustbe ID (tl ts)) (fun nm =>
             if negb (ueqb (tv (fst nm)) (cur_name c)) then Reject (cp "Expected class-name after ~")
             else
               let s1 := {| ss_spec := [cp "void"]; ss_storage := []; ss_const := false; ss_volatile := false;
                            ss_tm := Some (cp "void"); ss_targs := []; ss_ctor := false; ss_dtor := Some (tv (fst nm)) |} in
               p_targs f c s1 (snd nm))
      else
        bind (p_specifier f c false s0 ts) (fun x =>
        match ss_spec (fst x) with
        | [] => Reject (cp "Expected TYPE_SPECIFIER")
        | _ => Ok x
        end)
  end.

(* declaration / parameter_list / array suffix *)
Fixpoint p_arrays (fuel : nat) (acc : list expr) (ts : list tok) : result (list expr * list tok) :=
  match fuel with
  | O => OutOfFuel
  | S f =>
      if peek LBRACKET ts then
        bind (parse_expression (tl ts)) (fun x =>
        bind (mustbe RBRACKET (snd x)) (fun y => p_arrays f (acc ++ [fst x]) (snd y)))
      else Ok (acc, ts)
  end.

Definition is_void_param (d : decl) : bool :=
  match d with
  | Decl [v] _ _ _ _ None _ _ _ _ _ _ => ueqb v (cp "void")
  | _ => false
  end.

Fixpoint p_declaration (fuel : nat) (c : pctx) (ts : list tok) {struct fuel} : result (decl * list tok) :=
  match fuel with
  | O => OutOfFuel
  | S f =>
      bind (p_decl_spec f c ts) (fun x =>
      let '(s, ts1) := x in
      bind (get_canonical c s) (fun tm =>
      bind (if ss_ctor s || match ss_dtor s with Some _ => true | None => false end
            then Ok (None, ts1) else p_declarator f ts1) (fun dt =>
      let ts2 := snd dt in
      bind (if peek LPAREN ts2 then
              bind (p_params f c (tl ts2) []) (fun ps =>
              let plist := match fst ps with [d] => if is_void_param d then [] else [d] | l => l end in
              let ts3 := snd ps in
              match ts3 with
              | t :: r =>
                  match tk t with
                  | TYPE_QUALIFIER => if ueqb (tv t) (cp "const") then Ok (Some plist, true, r)
                                      else Reject (cp "unexpected after function declaration")
                  | _ => Ok (Some plist, false, ts3)
                  end
              | [] => Ok (Some plist, false, ts3)
              end)
            else Ok (None, false, ts2)) (fun pr =>
      let '(params, fconst, ts4) := pr in
      bind (p_arrays f [] ts4) (fun ar =>
      bind (p_attribute f (ctor_attrs s) (snd ar)) (fun at_ =>
      let ts6 := snd at_ in
      let '(init, ts7) := if peek EQUALS ts6 then initializer (tl ts6) else (AVNone, ts6) in
      Ok (decl_of s tm (fst dt) params (fst ar) (fst at_) init fconst, ts7)))))))
  end
with p_params (fuel : nat) (c : pctx) (ts : list tok) (acc : list decl) {struct fuel} : result (list decl * list tok) :=
  match fuel with
  | O => OutOfFuel
  | S f =>
      if peek RPAREN ts then Ok (rev acc, tl ts)
      else bind (p_declaration f c ts) (fun x =>
           let ts1 := snd x in
           if peek COMMA ts1 then
             if peek VARARG (tl ts1) then Reject (cp "varargs")
             else p_params f c (tl ts1) (fst x :: acc)
           else bind (mustbe RPAREN ts1) (fun y => Ok (rev (fst x :: acc), snd y)))
  end.

Definition decl_fuel (ts : list tok) : nat := 8 * (List.length ts + 2).

(* ---- statements ---- *)
Fixpoint p_struct_members (fuel : nat) (c : pctx) (ts : list tok) (acc : list decl) : result (list decl * list tok) :=
  match fuel with
  | O => OutOfFuel
  | S f =>
      if peek RCURLY ts then Ok (rev acc, ts)
      else bind (p_declaration (decl_fuel ts) c ts) (fun x =>
           bind (mustbe SEMICOLON (snd x)) (fun y => p_struct_members f c (snd y) (fst x :: acc)))
  end.

Fixpoint p_template_params (fuel : nat) (ts : list tok) (acc : list ustr) : result (list ustr * list tok) :=
  match fuel with
  | O => OutOfFuel
  | S f =>
      if peek GT ts then Ok (rev acc, ts)
      else
        let ts1 := if peek KW_TYPENAME ts || peek KW_CLASS ts then tl ts else ts in
        bind (mustbe ID ts1) (fun nm =>
        if peek COMMA (snd nm) then p_template_params f (tl (snd nm)) (tv (fst nm) :: acc)
        else Ok (rev (tv (fst nm) :: acc), snd nm))
  end.

Definition p_class (c : pctx) (ts : list tok) : result (stmt * list tok) :=
  bind (mustbe KW_CLASS ts) (fun a =>
  bind (mustbe ID (snd a)) (fun nm =>
  let ts1 := snd nm in
  if peek COLON ts1 then
    let ts2 := tl ts1 in
    let '(access, ts3) := if peek KW_PUBLIC ts2 || peek KW_PRIVATE ts2 || peek KW_PROTECTED ts2
                          then (tv_of ts2, tl ts2) else (cp "private", ts2) in
    if peek ID ts3 then
      match sym_lookup (tv_of ts3) (scope c) with
      | Some ns =>
          bind (p_nested (S (List.length ts3)) ns [tv_of ts3] (tl ts3)) (fun x =>
          let '(_, names, ts4) := x in Ok (SClass (tv (fst nm)) [(access, join_colons names)], ts4))
      | None => Reject (cp "unknown class")
      end
    else bind (mustbe ID ts3) (fun _ => Ok (SClass (tv (fst nm)) [], ts3))
  else Ok (SClass (tv (fst nm)) [], ts1))).

(* Template.fill_symbols: the template parameters become known type names for the declaration *)
Definition with_template_params (c : pctx) (ps : list ustr) : pctx :=
  {| cur_id := 0; cur_is_class := false; cur_name := []; 
     scope := map (fun p => (p, Sym 0 KParam (TmName p) [])) ps ++ scope c; known_types := known_types c |}.

Definition p_stmt (c : pctx) (ts : list tok) : result (stmt * list tok) :=
  match tk_of ts with
  | KW_CLASS => p_class c ts
  | KW_ENUM => Reject (cp "ENUM-handled-by-parse_enum")
  | KW_STRUCT =>
      bind (mustbe ID (tl ts)) (fun nm =>
      if peek LCURLY (snd nm) then
        bind (p_struct_members (S (List.length ts)) c (tl (snd nm)) []) (fun ms =>
        bind (mustbe RCURLY (snd ms)) (fun y => Ok (SStruct (tv (fst nm)) (fst ms), snd y)))
      else Ok (SStruct (tv (fst nm)) [], snd nm))
  | NAMESPACE => bind (mustbe ID (tl ts)) (fun nm => Ok (SNamespace (tv (fst nm)), snd nm))
  | KW_TEMPLATE =>
      bind (mustbe LT (tl ts)) (fun a =>
      bind (p_template_params (S (List.length ts)) (snd a) []) (fun ps =>
      bind (mustbe GT (snd ps)) (fun g =>
      if peek KW_CLASS (snd g) then bind (p_class c (snd g)) (fun x => Ok (STemplate (fst ps) (fst x), snd x))
      else bind (p_declaration (decl_fuel ts) (with_template_params c (fst ps)) (snd g))
                (fun x => Ok (STemplate (fst ps) (SDecl (fst x)), snd x)))))
  | _ => bind (p_declaration (decl_fuel ts) c ts) (fun x => Ok (SDecl (fst x), snd x))
  end.

(* decl_statement: the statement, an optional semicolon, then the end of the text *)
Definition parse_statement (c : pctx) (s : ustr) : result stmt :=
  let ts := tokenize s in
  if peek KW_ENUM ts then bind (parse_enum s) (fun e => Ok (SEnum e)) else
  bind (p_stmt c ts) (fun x =>
  let ts1 := if peek SEMICOLON (snd x) then tl (snd x) else snd x in
  bind (mustbe EOF ts1) (fun _ => Ok (fst x))).
