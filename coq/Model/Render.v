(* Model/Render.v — executable model of the unparser declast.Declaration.gen_decl (default keyword arguments:
   attributes included), Declarator.gen_decl_work, Ptr.gen_decl_work, Declaration.__str__ (used for template
   arguments) and gen_attrs; and the token sequences a declarator stands for. *)
From Coq Require Import List NArith ZArith Bool Arith String.
From Shroud Require Import Base.Ustr Model.Splicer Model.Lexer Model.Expr Model.Decl.
Import ListNotations.

Definition sp : ustr := cp " ".

Fixpoint join_with (sep : ustr) (l : list ustr) : ustr :=
  match l with [] => [] | [x] => x | x :: r => x ++ sep ++ join_with sep r end.

(* Ptr.gen_decl_work; as_c: references become pointers *)
Definition render_ptr (as_c : bool) (p : ptr) : ustr :=
  (match p_ptr p with [] => [] | s => sp ++ (if as_c then cp "*" else s) end)
  ++ (if p_const p then cp " const" else []) ++ (if p_volatile p then cp " volatile" else []).

Fixpoint render_dtor (as_c : bool) (d : declarator) : ustr :=
  let '(Dtor ps name func) := d in
  List.concat (map (render_ptr as_c) ps) ++
  match func with
  | Some f => cp " (" ++ render_dtor as_c f ++ cp ")"
  | None => match name with Some (c :: n) => sp ++ c :: n | _ => [] end
  end.

(* str(value) of an attribute / initialiser value (REAL: the token text; Python prints repr(float(text))) *)
Fixpoint strip0 (s : ustr) : ustr :=
  match s with c :: (_ :: _) as r => if (c =? 48)%N then strip0 r else s | _ => s end.
Definition str_av (v : attrval) : ustr :=
  match v with AVTrue => cp "True" | AVStr s => s | AVInt s => strip0 s | AVReal s => s | AVNone => cp "None" end.

(* sorted(attrs): insertion sort on code point order *)
Fixpoint ule (a b : ustr) : bool :=
  match a, b with
  | [], _ => true
  | _ :: _, [] => false
  | x :: a', y :: b' => if (x <? y)%N then true else if (y <? x)%N then false else ule a' b'
  end.
Fixpoint ins_attr (kv : ustr * attrval) (l : list (ustr * attrval)) : list (ustr * attrval) :=
  match l with
  | [] => [kv]
  | h :: r => if ule (fst kv) (fst h) then kv :: l else h :: ins_attr kv r
  end.
Definition sort_attrs (l : list (ustr * attrval)) : list (ustr * attrval) := fold_right ins_attr [] l.

Definition printable_attr (kv : ustr * attrval) : bool :=
  match fst kv with
  | c :: _ => negb (c =? 95)%N && negb (ueqb (fst kv) (cp "template")) && match snd kv with AVNone => false | _ => true end
  | [] => false
  end.
Definition render_attr (kv : ustr * attrval) : ustr :=
  cp "+" ++ match snd kv with AVTrue => fst kv | v => fst kv ++ cp "(" ++ str_av v ++ cp ")" end.
Definition render_attrs (l : list (ustr * attrval)) : ustr :=
  match filter printable_attr (sort_attrs l) with
  | [] => []
  | l' => sp ++ List.concat (map render_attr l')
  end.

Definition attr_lookup (k : string) (l : list (ustr * attrval)) : attrval :=
  (fix go (l : list (ustr * attrval)) : attrval :=
     match l with [] => AVNone | (k', v) :: r => if ueqb (cp k) k' then v else go r end) l.
Definition truthy_str (v : attrval) : option ustr := match v with AVStr (c :: s) => Some (c :: s) | _ => None end.

(* Declaration.__str__ for a template argument (declarator None, no parameters) *)
Definition str_targ (d : decl) : ustr :=
  let '(Decl spec storage c v _ _ _ _ attrs _ _ _) := d in
  (if c then cp "const " else []) ++ (if v then cp "volatile " else []) ++
  match truthy_str (attr_lookup "_destructor" attrs) with
  | Some n => cp "~" ++ n
  | None => (match storage with [] => [] | _ => join_with sp storage ++ sp end) ++
            (match spec with [] => cp "int" | _ => join_with sp spec end)
  end.

Fixpoint render_decl (d : decl) : ustr :=
  let '(Decl spec storage c v _ dt params arr attrs init targs fconst) := d in
  (if c then cp "const " else []) ++ (if v then cp "volatile " else []) ++
  match truthy_str (attr_lookup "_destructor" attrs) with
  | Some n => cp "~" ++ n
  | None => (match storage with [] => [] | _ => join_with sp storage ++ sp end) ++ join_with sp spec
  end ++
  (match targs with [] => [] | _ => cp "<" ++ join_with (cp ",") (map str_targ targs) ++ cp ">" end) ++
  (match dt with Some x => render_dtor false x | None => [] end) ++
  (match init with AVNone => [] | i => cp "=" ++ str_av i end) ++
  (match params with
   | None => []
   | Some ps => cp "(" ++ (match ps with [] => cp "void" | _ => join_with (cp ", ") (map render_decl ps) end) ++ cp ")" ++
                (if fconst then cp " const" else [])
   end) ++
  List.concat (map (fun e => cp "[" ++ print_expr e ++ cp "]") arr) ++
  render_attrs attrs.

(* ---- the tokens a declarator stands for ---- *)
Definition tok_of (k : tkind) (s : string) : tok := {| tk := k; tv := cp s |}.
Definition ptr_toks (p : ptr) : list tok :=
  {| tk := (if ueqb (p_ptr p) (cp "&") then REF else STAR); tv := p_ptr p |} ::
  (if p_const p then [tok_of TYPE_QUALIFIER "const"] else []) ++ (if p_volatile p then [tok_of TYPE_QUALIFIER "volatile"] else []).
Fixpoint dtor_toks (d : declarator) : list tok :=
  let '(Dtor ps name func) := d in
  List.concat (map ptr_toks ps) ++
  match func with
  | Some f => tok_of LPAREN "(" :: dtor_toks f ++ [tok_of RPAREN ")"]
  | None => match name with Some n => [{| tk := ID; tv := n |}] | None => [] end
  end.

(* the C counterpart of a declarator: every reference is a pointer *)
Fixpoint as_c_dtor (d : declarator) : declarator :=
  let '(Dtor ps name func) := d in
  Dtor (map (fun p => {| p_ptr := (match p_ptr p with [] => [] | _ => cp "*" end); p_const := p_const p; p_volatile := p_volatile p |}) ps)
       name (option_map as_c_dtor func).

(* parse, render, parse again (for the round-trip check by execution) *)
Definition reparse (c : pctx) (s : ustr) : result (stmt * ustr * result stmt) :=
  bind (parse_statement c s) (fun st =>
  match st with
  | SDecl d => let t := render_decl d in Ok (st, t, parse_statement c t)
  | _ => Ok (st, [], Ok st)
  end).
