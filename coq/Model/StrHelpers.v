(* Model/StrHelpers.v — executable model of the C string helpers whose text lives in
   shroud/whelpers.py (CHelpers: ShroudLenTrim, ShroudStrCopy, ShroudStrBlankFill,
   ShroudStrAlloc, ShroudStrArrayAlloc).  A buffer is the list of its bytes, its capacity
   the length of the list; every function also returns [ok = no access outside a buffer]. *)
From Coq Require Import List NArith ZArith Bool Arith.
From Shroud Require Import Base.Ustr.
Import ListNotations.

Definition BL : N := 32%N.
Definition NUL : N := 0%N.
Definition UNINIT : N := 256%N.     (* malloc'ed, never written *)

Fixpoint drop_blanks (l : list N) : list N :=
  match l with
  | c :: r => if N.eqb c BL then drop_blanks r else l
  | [] => []
  end.

(* ShroudLenTrim(src, nsrc) *)
Definition len_trim (src : list N) (nsrc : nat) : nat * bool :=
  (length (drop_blanks (rev (firstn nsrc src))), Nat.leb nsrc (length src)).

(* strlen: index of the first NUL inside the buffer *)
Fixpoint cstrlen (s : list N) : option nat :=
  match s with
  | [] => None
  | c :: r => if N.eqb c NUL then Some 0 else option_map S (cstrlen r)
  end.

(* ShroudStrCopy(dest, ndest, src, nsrc) ; src = None is the NULL pointer *)
Definition str_copy (dest : list N) (ndest : nat) (src : option (list N)) (nsrc : Z) : list N * bool :=
  match src with
  | None => (repeat BL ndest ++ skipn ndest dest, Nat.leb ndest (length dest))
  | Some s =>
      let n := if (nsrc <? 0)%Z then cstrlen s else Some (Z.to_nat nsrc) in
      match n with
      | None => (dest, false)
      | Some n =>
          let nm := Nat.min n ndest in
          (firstn nm s ++ repeat BL (ndest - nm) ++ skipn ndest dest,
           Nat.leb nm (length s) && Nat.leb ndest (length dest))
      end
  end.

(* ShroudStrBlankFill(dest, ndest) *)
Definition blank_fill (dest : list N) (ndest : nat) : list N * bool :=
  match cstrlen dest with
  | None => (dest, false)
  | Some nm =>
      if Nat.ltb nm ndest
      then (firstn nm dest ++ repeat BL (ndest - nm) ++ skipn ndest dest, Nat.leb ndest (length dest))
      else (dest, true)
  end.

(* ShroudStrAlloc(src, nsrc, ntrim) : the malloc'ed buffer of nsrc+1 bytes *)
Definition str_alloc (src : list N) (nsrc : nat) (ntrim : Z) : list N * bool :=
  let '(nt, ok0) := if (ntrim =? -1)%Z then len_trim src nsrc else (Z.to_nat ntrim, (0 <=? ntrim)%Z) in
  (firstn nt src ++ [NUL] ++ repeat UNINIT (nsrc - nt),
   ok0 && Nat.leb nt (length src) && Nat.leb nt nsrc).

(* ShroudStrArrayAlloc(src, nsrc, len): nsrc strings of len characters *)
Fixpoint str_array_alloc (src : list N) (nsrc len : nat) : list (list N) * bool :=
  match nsrc with
  | O => ([], true)
  | S k =>
      let '(nt, ok1) := len_trim src len in
      let '(rest, ok2) := str_array_alloc (skipn len src) k len in
      ((firstn nt src ++ [NUL]) :: rest, ok1 && ok2)
  end.

(* the text of a C string: bytes before the first NUL *)
Definition cstr (s : list N) : list N :=
  match cstrlen s with Some k => firstn k s | None => s end.

(* Fortran text without its trailing blanks *)
Definition rtrim_blank (t : list N) : list N := firstn (fst (len_trim t (length t))) t.
