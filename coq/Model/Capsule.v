(* Model/Capsule.v — executable model of the ownership protocol of the generated C API:
   the capsule {addr, idtor} (types<lib>.h), constructor wrappers (c_shadow_ctor: new + idtor k), functions returning
   owner(caller) / owner(library) pointers (idtor k / 0), method wrappers (use self->addr), the class destructor wrapper
   (delete SH_this; self->addr = nullptr) and <PREFIX>SHROUD_memory_destructor (switch on idtor; then addr = nullptr,
   idtor = 0).  The oheap records for every object how it was allocated and whether it is live; errors are explicit. *)
From Coq Require Import List NArith Bool Arith.
Import ListNotations.

(* allocation kind of an object = index of the matching release code in the destructor table; 0 = owned by the library *)
Record obj := { o_kind : nat; o_live : bool; o_frees : nat }.
Record handle := { h_addr : option nat; h_idtor : nat }.
Record state := { oheap : list obj; handles : list handle }.

Inductive op :=
| New (k : nat)              (* constructor / function returning caller-owned memory allocated for release code k (k >= 1) *)
| Borrow (a : nat)           (* function returning a pointer to library-owned object number a (idtor 0) *)
| LibObject                  (* the library creates an object of its own (not an API call; for Borrow to refer to) *)
| Method (h : nat)           (* any wrapper that dereferences the handle *)
| Destroy (h : nat)             (* class destructor wrapper with release code of the handle's class *)
| Release (h : nat)          (* SHROUD_memory_destructor(&handle): finaliser, copy-out helpers *)
| Copy (h : nat).            (* the caller copies the handle (struct / derived-type assignment) *)

Inductive outcome := Done | DoubleFree | UseAfterFree | WrongDeallocator | FreeOfLibraryOwned | NullHandle | BadOp.

Definition init : state := {| oheap := []; handles := [] |}.

Fixpoint set_nth {A} (n : nat) (x : A) (l : list A) : list A :=
  match l, n with
  | [], _ => []
  | _ :: r, O => x :: r
  | y :: r, S k => y :: set_nth k x r
  end.

(* free object a with release code k *)
Definition free_obj (s : state) (a k : nat) : state * outcome :=
  match nth_error (oheap s) a with
  | None => (s, BadOp)
  | Some o =>
      if Nat.eqb (o_kind o) 0 then (s, FreeOfLibraryOwned)
      else if negb (o_live o) then (s, DoubleFree)
      else if negb (Nat.eqb (o_kind o) k) then (s, WrongDeallocator)
      else ({| oheap := set_nth a {| o_kind := o_kind o; o_live := false; o_frees := S (o_frees o) |} (oheap s); handles := handles s |}, Done)
  end.

Definition set_handle (s : state) (h : nat) (x : handle) : state := {| oheap := oheap s; handles := set_nth h x (handles s) |}.

Definition cstep (s : state) (o : op) : state * outcome :=
  match o with
  | New k =>
      if Nat.eqb k 0 then (s, BadOp)
      else ({| oheap := oheap s ++ [{| o_kind := k; o_live := true; o_frees := 0 |}];
               handles := handles s ++ [{| h_addr := Some (List.length (oheap s)); h_idtor := k |}] |}, Done)
  | LibObject => ({| oheap := oheap s ++ [{| o_kind := 0; o_live := true; o_frees := 0 |}]; handles := handles s |}, Done)
  | Borrow a =>
      match nth_error (oheap s) a with
      | Some o => if Nat.eqb (o_kind o) 0 then ({| oheap := oheap s; handles := handles s ++ [{| h_addr := Some a; h_idtor := 0 |}] |}, Done)
                  else (s, BadOp)
      | None => (s, BadOp)
      end
  | Method h =>
      match nth_error (handles s) h with
      | None => (s, BadOp)
      | Some x => match h_addr x with
                  | None => (s, NullHandle)
                  | Some a => match nth_error (oheap s) a with
                              | Some ob => if o_live ob then (s, Done) else (s, UseAfterFree)
                              | None => (s, BadOp)
                              end
                  end
      end
  | Destroy h =>
      match nth_error (handles s) h with
      | None => (s, BadOp)
      | Some x => match h_addr x with
                  | None => (s, Done)                                  (* delete nullptr *)
                  | Some a =>
                      let k := match nth_error (oheap s) a with Some ob => (if Nat.eqb (o_kind ob) 0 then 1 else o_kind ob) | None => 1 end in
                      let '(s1, r) := free_obj s a k in
                      match r with
                      | Done => (set_handle s1 h {| h_addr := None; h_idtor := h_idtor x |}, Done)
                      | e => (s, e)
                      end
                  end
      end
  | Release h =>
      match nth_error (handles s) h with
      | None => (s, BadOp)
      | Some x =>
          match h_idtor x, h_addr x with
          | O, _ | _, None => (set_handle s h {| h_addr := None; h_idtor := 0 |}, Done)
          | k, Some a =>
              let '(s1, r) := free_obj s a k in
              match r with
              | Done => (set_handle s1 h {| h_addr := None; h_idtor := 0 |}, Done)
              | e => (s, e)
              end
          end
      end
  | Copy h =>
      match nth_error (handles s) h with
      | None => (s, BadOp)
      | Some x => ({| oheap := oheap s; handles := handles s ++ [x] |}, Done)
      end
  end.

(* crun until the first outcome that is not Done *)
Fixpoint crun (s : state) (ops : list op) : state * outcome :=
  match ops with
  | [] => (s, Done)
  | o :: r => let '(s1, res) := cstep s o in
              match res with Done => crun s1 r | e => (s1, e) end
  end.
