(* Model/HelperDeps.v — executable model of Wrapc/Wrapf/Wrapp/Wrapl._gather_helper_code:
   depth-first, "done" marked on entry, a helper's code appended after its dependent_helpers.
   Helpers are numbered by the translator; [deps t n] = dependent_helpers of helper n. *)
From Coq Require Import List Bool Arith.
Import ListNotations.

Definition table := list (list nat).
Definition deps (t : table) (n : nat) : list nat := nth n t [].
Definition memb (n : nat) (l : list nat) : bool := existsb (Nat.eqb n) l.

Record dstate := { done : list nat; out : list nat }.     (* out: newest first *)

Fixpoint visit (fuel : nat) (t : table) (s : dstate) (n : nat) : dstate :=
  match fuel with
  | O => s
  | S f =>
      if memb n (done s) then s
      else let s1 := {| done := n :: done s; out := out s |} in
           let s2 := fold_left (visit f t) (deps t n) s1 in
           {| done := done s2; out := n :: out s2 |}
  end.

(* gather_helper_code: for name in sorted(helpers): _gather_helper_code(name, done) *)
Definition gather (fuel : nat) (t : table) (roots : list nat) : list nat :=
  rev (out (fold_left (visit fuel t) roots {| done := []; out := [] |})).

(* acyclicity certificate: a rank that strictly decreases along every dependency *)
Definition ranked (t : table) (rank : list nat) : bool :=
  forallb (fun n => forallb (fun d => Nat.ltb (nth d rank 0) (nth n rank 0) && Nat.ltb d (length t)) (deps t n)) (seq 0 (length t)).
