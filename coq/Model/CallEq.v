(* Model/CallEq.v — the argument-passing part of a generated C wrapper (wrapc.Wrapc.wrap_function: pre_call conversions,
   the C++ call, post_call copy-outs) as data: for every C++ parameter, which C parameter it is formed from and by which
   conversion; with a value semantics of the conversions. *)
From Coq Require Import List NArith ZArith Bool Arith String.
From Shroud Require Import Base.Ustr.
Import ListNotations.
Open Scope string_scope.

(* how an actual argument of the C++ call is formed from a C parameter *)
Inductive conv :=
| Direct            (* the C parameter itself: values, pointers, C strings *)
| Deref             (* *p : a C pointer standing for a C++ reference *)
| Cast              (* static_cast<Enum>(i) *)
| StringFrom        (* std::string built from the C string *)
| StringEmpty       (* std::string local for an intent(out) reference; copied out afterwards *)
| ShadowAddr        (* static_cast<Class *>(cap->addr) *)
| DerefShadow       (* *static_cast<Class *>(cap->addr) : class by reference or by value *)
| UnknownConv.

Definition conv_eqb (a b : conv) : bool :=
  match a, b with
  | Direct, Direct | Deref, Deref | Cast, Cast | StringFrom, StringFrom | StringEmpty, StringEmpty
  | ShadowAddr, ShadowAddr | DerefShadow, DerefShadow => true
  | _, _ => false
  end.

(* the conversion found is the documented one.  (A C string handed to the call where a std::string is expected is NOT accepted:
   the converting constructor gives the same value only when overload resolution still picks this candidate — with an overload
   taking bool or const char * it does not.) *)
Definition conv_compat (c e : conv) : bool := conv_eqb c e.

(* parameter kinds: type group, indirection, intent *)
Record pkind := { k_group : string; k_ptrs : string; k_intent : string }.

(* the documented conversion for a parameter kind; None = outside the covered grammar *)
Definition expected (k : pkind) : option conv :=
  let g := k_group k in let p := k_ptrs k in
  if (String.eqb g "native" || String.eqb g "bool" || String.eqb g "char" || String.eqb g "void") then
    if String.eqb p "" || String.eqb p "*" || String.eqb p "**" then Some Direct
    else if String.eqb p "&" then Some Deref else None
  else if String.eqb g "enum" then
    if String.eqb p "" then Some Cast else None
  else if String.eqb g "string" then
    if String.eqb p "&" || String.eqb p "" then
      (if String.eqb (k_intent k) "out" then Some StringEmpty else Some StringFrom)
    else None
  else if String.eqb g "shadow" then
    if String.eqb p "*" then Some ShadowAddr
    else if String.eqb p "&" || String.eqb p "" then Some DerefShadow else None
  else None.

(* string reference parameters the callee may change are copied back to the caller's buffer *)
Definition needs_copyout (k : pkind) : bool :=
  String.eqb (k_group k) "string" && (String.eqb (k_ptrs k) "&") && (String.eqb (k_intent k) "out" || String.eqb (k_intent k) "inout").

(* how the callee's result reaches the C caller *)
Inductive rconv :=
| RNone          (* nothing returned *)
| RDirect        (* the value of the call, returned as is (numbers, bool, pointers, C strings) *)
| RCastBack      (* static_cast<int>(enum value) *)
| RCStr          (* .c_str() of the std::string the callee returned by reference *)
| RShadow        (* the object's address stored in the caller's capsule, which is returned *)
| RGlue          (* delivered through an argument (bufferify variants, destructor) *)
| RUnknown.
Definition rconv_eqb (a b : rconv) : bool :=
  match a, b with
  | RNone, RNone | RDirect, RDirect | RCastBack, RCastBack | RCStr, RCStr | RShadow, RShadow | RGlue, RGlue => true
  | _, _ => false
  end.

Record wrapper := {
  w_name : string;
  w_kind : string;                              (* function | method | static | ctor | dtor *)
  w_call : string;                              (* function | method | static | new | delete, as found in the body *)
  w_this : string;                              (* C parameter the object pointer is taken from ("" if none) *)
  w_params : list (string * pkind);             (* the C++ parameters in declaration order *)
  w_args : list (conv * string);                (* the actual arguments of the C++ call, in call order: conversion, C parameter *)
  w_copyouts : list string;                     (* C parameters that receive a string copy after the call *)
  w_unknown : nat;                              (* statements of the body the extractor did not recognise *)
  w_rkind : pkind;                              (* kind of the C++ result *)
  w_result : rconv;                             (* how the body returns it *)
  w_buf : bool;                                 (* a bufferify variant: the result travels through an argument *)
  w_this_const : bool;                          (* the object pointer recovered from the capsule is a pointer to const *)
  w_fconst : bool;                              (* the C++ member function is declared const *)
  w_cparams : list string;                      (* the names of the C prototype's parameters *)
  w_lens : list string                          (* C parameters from which a std::string is built WITH the trimmed length L<name> *)
}.

(* the documented way a result of a given kind is returned; None = outside the covered grammar *)
Definition expected_result (w : wrapper) : option rconv :=
  let k := w_rkind w in let g := k_group k in
  if w_buf w then Some RGlue
  else if String.eqb (w_kind w) "ctor" then Some RShadow
  else if String.eqb (w_kind w) "dtor" then Some RGlue
  else if String.eqb g "void" && String.eqb (k_ptrs k) "" then Some RNone
  else if String.eqb g "native" || String.eqb g "bool" || String.eqb g "char" || String.eqb g "void" then Some RDirect
  else if String.eqb g "enum" then (if String.eqb (k_ptrs k) "" then Some RCastBack else None)
  else if String.eqb g "string" then (if String.eqb (k_ptrs k) "" then None else Some RCStr)
  else if String.eqb g "shadow" then Some RShadow
  else None.

Definition result_ok (w : wrapper) : bool :=
  match expected_result w with
  | Some r => rconv_eqb (w_result w) r
              || (w_buf w && (rconv_eqb (w_result w) RNone || rconv_eqb (w_result w) RDirect || rconv_eqb (w_result w) RCastBack || rconv_eqb (w_result w) RShadow))
  | None => true
  end.

Fixpoint args_ok (ps : list (string * pkind)) (args : list (conv * string)) : bool :=
  match ps, args with
  | [], [] => true
  | (n, k) :: ps', (c, r) :: args' =>
      match expected k with
      | Some e => conv_compat c e && String.eqb r n && args_ok ps' args'
      | None => false
      end
  | _, _ => false
  end.

Fixpoint str_list_eqb (a b : list string) : bool :=
  match a, b with
  | [], [] => true
  | x :: a', y :: b' => String.eqb x y && str_list_eqb a' b'
  | _, _ => false
  end.

Definition call_ok (w : wrapper) : bool :=
  (String.eqb (w_kind w) "function" && String.eqb (w_call w) "function" && String.eqb (w_this w) "")
  (* a const member is called through a pointer to const and a non-const one through a plain pointer: with a const / non-const
     overload pair in the class the other constness selects the other member *)
  || (String.eqb (w_kind w) "method" && String.eqb (w_call w) "method" && String.eqb (w_this w) "self"
      && Bool.eqb (w_this_const w) (w_fconst w))
  || (String.eqb (w_kind w) "static" && String.eqb (w_call w) "static" && String.eqb (w_this w) "")
  || (String.eqb (w_kind w) "ctor" && String.eqb (w_call w) "new" && String.eqb (w_this w) "")
  || (String.eqb (w_kind w) "dtor" && String.eqb (w_call w) "delete" && String.eqb (w_this w) "self").

Definition known_kind (w : wrapper) : bool :=
  existsb (String.eqb (w_kind w)) ["function"; "method"; "static"; "ctor"; "dtor"].
Definition covered (w : wrapper) : bool :=
  known_kind w && forallb (fun p => match expected (snd p) with Some _ => true | None => false end) (w_params w).

(* a std::string built from a C parameter uses the trimmed length L<name> exactly when the prototype has that parameter (the
   bufferify route: the text is blank padded and not terminated there; without the length the string would run to the next NUL) *)
Definition smem (s : string) (l : list string) : bool := existsb (String.eqb s) l.
Definition lens_ok (w : wrapper) : bool :=
  forallb (fun a => if conv_eqb (fst a) StringFrom
                    then Bool.eqb (smem (String.append "L" (snd a)) (w_cparams w)) (smem (snd a) (w_lens w))
                    else true) (w_args w).

Definition wrapper_ok (w : wrapper) : bool :=
  Nat.eqb (w_unknown w) 0 && call_ok w && lens_ok w && args_ok (w_params w) (w_args w)
  && str_list_eqb (w_copyouts w) (map fst (filter (fun p => needs_copyout (snd p)) (w_params w))).

(* ---- values ---- *)
Inductive cxxval := XNum (z : Z) | XEnum (z : Z) | XStr (s : ustr) | XObj (id : nat) | XObjPtr (id : nat) | XCPtr (cell : nat) | XNone.
(* what the C caller passes *)
Inductive cval := CNum (z : Z) | CStr (s : ustr)          (* NUL-terminated text: s is the part before the terminator *)
                | CPtrTo (v : cxxval)                      (* pointer to a cell holding v (for references) *)
                | CPtr (cell : nat)                        (* a pointer passed through *)
                | CCapsule (id : nat)                      (* capsule whose addr is object id *)
                | CNone.

(* value the callee sees for a C value under a conversion *)
Definition sem (c : conv) (v : cval) : cxxval :=
  match c, v with
  | Direct, CNum z => XNum z
  | Direct, CPtr a => XCPtr a
  | Direct, CStr s => XStr s
  | Deref, CPtrTo x => x
  | Cast, CNum z => XEnum z
  | StringFrom, CStr s => XStr s
  | StringEmpty, _ => XStr []
  | ShadowAddr, CCapsule id => XObjPtr id
  | DerefShadow, CCapsule id => XObj id
  | _, _ => XNone
  end.

(* how a C caller represents a C++ argument value for a parameter expecting conversion c *)
Definition c_form (c : conv) (x : cxxval) : cval :=
  match c, x with
  | Direct, XNum z => CNum z
  | Direct, XCPtr a => CPtr a
  | Direct, XStr s => CStr s
  | Deref, x => CPtrTo x
  | Cast, XEnum z => CNum z
  | StringFrom, XStr s => CStr s
  | StringEmpty, _ => CStr []
  | ShadowAddr, XObjPtr id => CCapsule id
  | DerefShadow, XObj id => CCapsule id
  | _, _ => CNone
  end.

(* a value is representable for a conversion *)
Definition fits (c : conv) (x : cxxval) : Prop :=
  match c, x with
  | Direct, (XNum _ | XCPtr _ | XStr _) => True
  | Deref, x => x <> XNone
  | Cast, XEnum _ => True
  | StringFrom, XStr _ => True
  | StringEmpty, XStr [] => True
  | ShadowAddr, XObjPtr _ => True
  | DerefShadow, XObj _ => True
  | _, _ => False
  end.

(* the C call: an environment binding C parameter names to C values; what the callee receives *)
Fixpoint lookup (n : string) (env : list (string * cval)) : cval :=
  match env with [] => CNone | (k, v) :: r => if String.eqb n k then v else lookup n r end.
Definition received (w : wrapper) (env : list (string * cval)) : list cxxval :=
  map (fun a => sem (fst a) (lookup (snd a) env)) (w_args w).
