(* Model/Expr.v — executable model of declast.ExprParser (expression / primary / identifier /
   argument_list), Parser.enum_statement + decl_statement tail, and todict.PrintNode /
   PrintNodeIdentifier for expressions. *)
From Coq Require Import List NArith Bool Arith String.
From Shroud Require Import Base.Ustr Model.Splicer Model.Lexer.
Import ListNotations.

Inductive expr :=
| EIdent (n : ustr) (args : option (list expr))   (* None: plain name; Some l: call *)
| EConst (v : ustr)
| EBin (l : expr) (op : ustr) (r : expr)
| EUn (op : ustr) (e : expr)
| EParen (e : expr).

(* OPINFO_MAP: all four operators are LEFT associative *)
Definition opinfo (v : ustr) : option nat :=
  match v with
  | [c] => if (c =? 43)%N || (c =? 45)%N then Some 1
           else if (c =? 42)%N || (c =? 47)%N then Some 2 else None
  | _ => None
  end.

Definition kind_eqb (a b : tkind) : bool :=
  match a, b with
  | REAL, REAL | INTEGER, INTEGER | DQUOTE, DQUOTE | SQUOTE, SQUOTE | LPAREN, LPAREN | RPAREN, RPAREN
  | LCURLY, LCURLY | RCURLY, RCURLY | LBRACKET, LBRACKET | RBRACKET, RBRACKET | STAR, STAR | EQUALS, EQUALS
  | REF, REF | PLUS, PLUS | MINUS, MINUS | SLASH, SLASH | COMMA, COMMA | SEMICOLON, SEMICOLON | LT, LT | GT, GT
  | TILDE, TILDE | NAMESPACE, NAMESPACE | COLON, COLON | VARARG, VARARG | ID, ID | OTHER, OTHER
  | TYPE_SPECIFIER, TYPE_SPECIFIER | TYPE_QUALIFIER, TYPE_QUALIFIER | STORAGE_CLASS, STORAGE_CLASS
  | KW_CLASS, KW_CLASS | KW_ENUM, KW_ENUM | KW_NAMESPACE, KW_NAMESPACE | KW_STRUCT, KW_STRUCT
  | KW_TEMPLATE, KW_TEMPLATE | KW_TYPENAME, KW_TYPENAME | KW_PUBLIC, KW_PUBLIC | KW_PRIVATE, KW_PRIVATE
  | KW_PROTECTED, KW_PROTECTED | EOF, EOF => true
  | _, _ => false
  end.

Definition peek (k : tkind) (ts : list tok) : bool :=
  match ts with t :: _ => kind_eqb (tk t) k | [] => kind_eqb EOF k end.

Definition perr {A} : result A := Reject (cp "Parse Error").

(* mustbe(k): consume or RuntimeError *)
Definition mustbe (k : tkind) (ts : list tok) : result (tok * list tok) :=
  match ts with
  | t :: r => if kind_eqb (tk t) k then Ok (t, r) else perr
  | [] => if kind_eqb EOF k then Ok ({| tk := EOF; tv := [] |}, []) else perr
  end.

Fixpoint p_expr (fuel : nat) (min_prec : nat) (ts : list tok) {struct fuel} : result (expr * list tok) :=
  match fuel with
  | O => OutOfFuel
  | S f =>
      bind (p_primary f ts) (fun r => p_loop f min_prec (fst r) (snd r))
  end
with p_loop (fuel : nat) (min_prec : nat) (lhs : expr) (ts : list tok) {struct fuel} : result (expr * list tok) :=
  match fuel with
  | O => OutOfFuel
  | S f =>
      match ts with
      | t :: r =>
          match opinfo (tv t) with
          | Some prec =>
              if Nat.ltb prec min_prec then Ok (lhs, ts)
              else bind (p_expr f (S prec) r) (fun x => p_loop f min_prec (EBin lhs (tv t) (fst x)) (snd x))
          | None => Ok (lhs, ts)
          end
      | [] => Ok (lhs, ts)
      end
  end
with p_primary (fuel : nat) (ts : list tok) {struct fuel} : result (expr * list tok) :=
  match fuel with
  | O => OutOfFuel
  | S f =>
      match ts with
      | t :: r =>
          match tk t with
          | ID =>
              if peek LPAREN r
              then bind (p_args f (tl r) []) (fun x => Ok (EIdent (tv t) (Some (fst x)), snd x))
              else Ok (EIdent (tv t) None, r)
          | REAL | INTEGER => Ok (EConst (tv t), r)
          | LPAREN =>
              bind (p_expr f 0 r) (fun x =>
              bind (mustbe RPAREN (snd x)) (fun y => Ok (EParen (fst x), snd y)))
          | PLUS | MINUS => bind (p_primary f r) (fun x => Ok (EUn (tv t) (fst x), snd x))
          | _ => perr
          end
      | [] => perr
      end
  end
(* argument_list after the LPAREN: while token != RPAREN: expression; if not have(COMMA): break; mustbe RPAREN *)
with p_args (fuel : nat) (ts : list tok) (acc : list expr) {struct fuel} : result (list expr * list tok) :=
  match fuel with
  | O => OutOfFuel
  | S f =>
      if peek RPAREN ts then bind (mustbe RPAREN ts) (fun y => Ok (rev acc, snd y))
      else bind (p_expr f 0 ts) (fun x =>
           if peek COMMA (snd x) then p_args f (tl (snd x)) (fst x :: acc)
           else bind (mustbe RPAREN (snd x)) (fun y => Ok (rev (fst x :: acc), snd y)))
  end.

(* fuel: every recursive call is preceded by consuming a token or descends one of 3 levels;
   4 * (tokens + 1) is ample *)
Definition expr_fuel (ts : list tok) : nat := 4 * (List.length ts + 2).

Definition parse_expression (ts : list tok) : result (expr * list tok) := p_expr (expr_fuel ts) 0 ts.

(* check_expr(text): ExprParser(text).expression() — trailing tokens are ignored *)
Definition check_expr (s : ustr) : result expr :=
  bind (parse_expression (tokenize s)) (fun x => Ok (fst x)).

(* ---- PrintNode (after fix: a signed operand to the right of an operator is parenthesised,
   so that the text is an expression for C and Fortran: 1-(-1), not 1--1) ---- *)
Fixpoint print_expr (e : expr) : ustr :=
  match e with
  | EIdent n None => n
  | EIdent n (Some []) => n ++ cp "()"
  | EIdent n (Some (a :: r)) =>
      n ++ cp "(" ++ print_expr a ++ (fix go (l : list expr) : ustr :=
                                        match l with [] => [] | x :: t => cp "," ++ print_expr x ++ go t end) r ++ cp ")"
  | EConst v => v
  | EBin l op r => print_expr l ++ op ++ (match r with EUn _ _ => cp "(" ++ print_expr r ++ cp ")" | _ => print_expr r end)
  | EUn op x => op ++ (match x with EUn _ _ => cp "(" ++ print_expr x ++ cp ")" | _ => print_expr x end)
  | EParen x => cp "(" ++ print_expr x ++ cp ")"
  end.

(* PrintNodeIdentifier: plain identifiers found in [sym] are replaced *)
Fixpoint sym_get (n : ustr) (sym : list (ustr * ustr)) : option ustr :=
  match sym with
  | [] => None
  | (k, v) :: r => if ueqb n k then Some v else sym_get n r
  end.

Fixpoint print_ident (sym : list (ustr * ustr)) (e : expr) : ustr :=
  match e with
  | EIdent n None => match sym_get n sym with Some v => v | None => n end
  | EIdent n (Some []) => n ++ cp "()"
  | EIdent n (Some (a :: r)) =>
      n ++ cp "(" ++ print_ident sym a ++ (fix go (l : list expr) : ustr :=
                                        match l with [] => [] | x :: t => cp "," ++ print_ident sym x ++ go t end) r ++ cp ")"
  | EConst v => v
  | EBin l op r => print_ident sym l ++ op ++ (match r with EUn _ _ => cp "(" ++ print_ident sym r ++ cp ")" | _ => print_ident sym r end)
  | EUn op x => op ++ (match x with EUn _ _ => cp "(" ++ print_ident sym x ++ cp ")" | _ => print_ident sym x end)
  | EParen x => cp "(" ++ print_ident sym x ++ cp ")"
  end.

(* ---- enum_statement + decl_statement tail ---- *)
Record enum_ast := { en_name : ustr; en_scope : option ustr; en_members : list (ustr * option expr) }.

Fixpoint p_members (fuel : nat) (ts : list tok) (acc : list (ustr * option expr)) : result (list (ustr * option expr) * list tok) :=
  match fuel with
  | O => OutOfFuel
  | S f =>
      if peek RCURLY ts then Ok (rev acc, ts)
      else bind (mustbe ID ts) (fun nm =>
           let ts1 := snd nm in
           if peek EQUALS ts1 then
             bind (parse_expression (tl ts1)) (fun x =>
             let acc' := (tv (fst nm), Some (fst x)) :: acc in
             if peek COMMA (snd x) then p_members f (tl (snd x)) acc' else Ok (rev acc', snd x))
           else
             let acc' := (tv (fst nm), None) :: acc in
             if peek COMMA ts1 then p_members f (tl ts1) acc' else Ok (rev acc', ts1))
  end.

Definition parse_enum (s : ustr) : result enum_ast :=
  let ts := tokenize s in
  bind (mustbe KW_ENUM ts) (fun a =>
  let ts1 := snd a in
  let '(scope, ts2) := if peek KW_STRUCT ts1 then (Some (cp "struct"), tl ts1)
                       else if peek KW_CLASS ts1 then (Some (cp "class"), tl ts1) else (None, ts1) in
  bind (mustbe ID ts2) (fun nm =>
  bind (mustbe LCURLY (snd nm)) (fun lc =>
  bind (p_members (S (List.length ts)) (snd lc) []) (fun ms =>
  bind (mustbe RCURLY (snd ms)) (fun rc =>
  let ts3 := if peek SEMICOLON (snd rc) then tl (snd rc) else snd rc in
  bind (mustbe EOF ts3) (fun _ =>
  Ok {| en_name := tv (fst nm); en_scope := scope; en_members := fst ms |})))))).
